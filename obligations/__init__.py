"""Registry: obligation id -> spec, property id -> obligations it is decided by."""
from . import uni, out, io, tok, nl, cfg, sp, nlpp, lst

MODS = (uni, out, io, tok, nl, cfg, sp, nlpp, lst)
OBLIGATIONS = {}
for mod in MODS:
    for ob in mod.OBLIGATIONS:
        assert ob['id'] not in OBLIGATIONS
        OBLIGATIONS[ob['id']] = ob

PROPERTIES = {}
for mod in MODS:
    for pid, spec in getattr(mod, 'PROPERTIES', {}).items():
        cur = PROPERTIES.setdefault(pid, dict(obligations=[], assumptions=[], not_decided=''))
        cur['obligations'] += [o for o in spec['obligations'] if o not in cur['obligations']]
        cur['assumptions'] += spec.get('assumptions', [])
        if spec.get('not_decided'):
            cur['not_decided'] = (cur['not_decided'] + ' ' + spec['not_decided']).strip()
