#!/usr/bin/env python3
"""Engine: /repo working tree -> LLVM IR -> C -> CBMC verdict (+ translator
validation and counterexample replay on the natively built real functions).
See DESIGN.md section 1. Nothing here is specific to one property."""
import os
import re
import sys
import json
import time
import glob
import fcntl
import shutil
import struct
import random
import hashlib
import resource
import subprocess
from concurrent.futures import ThreadPoolExecutor

VERIF = os.path.dirname(os.path.dirname(os.path.abspath(__file__)))
REPO = os.environ.get('VP_REPO', '/repo')
SCRATCH = os.environ.get('VP_SCRATCH', '/var/tmp/uncrustify-verif')
MODELS = os.path.join(VERIF, 'models')
ENGINE = os.path.join(VERIF, 'engine')
HARNESS = os.path.join(VERIF, 'harness')

CLANG_FLAGS = ['-DNDEBUG', '-std=gnu++11', '-O1', '-fno-vectorize', '-fno-slp-vectorize', '-fno-unroll-loops',
               '-fno-exceptions', '-fno-rtti', '-fno-pic', '-mllvm', '-simplifycfg-sink-common=false', '-w']
CBMC_CHECKS = ['--bounds-check', '--pointer-check', '--div-by-zero-check', '--no-malloc-may-fail',
               '--unwinding-assertions']


def log(msg):
    sys.stderr.write('[vp] %s\n' % msg)
    sys.stderr.flush()


def sh(cmd, cwd=None, timeout=None, env=None, mem_gb=None, stdin=None):
    def limit():
        if mem_gb:
            b = int(mem_gb * (1 << 30))
            resource.setrlimit(resource.RLIMIT_AS, (b, b))
        os.setsid()
    t0 = time.time()
    try:
        p = subprocess.run(cmd, cwd=cwd, env=env, stdout=subprocess.PIPE, stderr=subprocess.PIPE, timeout=timeout,
                           preexec_fn=limit, input=stdin)
        return p.returncode, p.stdout.decode('latin1'), p.stderr.decode('latin1'), time.time() - t0
    except subprocess.TimeoutExpired as e:
        return -9, (e.stdout or b'').decode('latin1'), 'TIMEOUT', time.time() - t0


# ---------------------------------------------------------------- stage P
def tree_hash():
    h = hashlib.sha256()
    roots = ['src', 'scripts', 'cmake', 'CMakeLists.txt', 'etc', 'tests/CMakeLists.txt', 'man', 'documentation']
    for r in roots:
        p = os.path.join(REPO, r)
        if os.path.isfile(p):
            files = [p]
        else:
            files = []
            for d, dn, fn in os.walk(p):
                dn.sort()
                for f in sorted(fn):
                    files.append(os.path.join(d, f))
        for f in files:
            if not (r in ('src', 'scripts', 'cmake', 'CMakeLists.txt') or f.endswith(('.txt', '.in', '.cmake'))):
                continue
            try:
                with open(f, 'rb') as fh:
                    h.update(f.encode())
                    h.update(hashlib.sha256(fh.read()).digest())
            except OSError:
                pass
    return h.hexdigest()[:16]


def prepare():
    """configure+build /repo's current working tree in a scratch dir; returns dict of paths"""
    os.makedirs(SCRATCH, exist_ok=True)
    th = tree_hash()
    w = os.path.join(SCRATCH, th)
    lock = open(os.path.join(SCRATCH, '.lock'), 'w')
    fcntl.flock(lock, fcntl.LOCK_EX)
    try:
        stamp = os.path.join(w, 'ok-v3')
        if not os.path.exists(stamp):
            for old in glob.glob(os.path.join(SCRATCH, '*')):
                if os.path.isdir(old) and old != w:
                    shutil.rmtree(old, ignore_errors=True)
            shutil.rmtree(w, ignore_errors=True)
            os.makedirs(w)
            t0 = time.time()
            rc, o, e, _ = sh(['cmake', '-G', 'Ninja', '-S', REPO, '-B', os.path.join(w, 'build'),
                              '-DCMAKE_BUILD_TYPE=Release', '-DCMAKE_CXX_FLAGS=-DUNCRUSTIFY_VERIF'], timeout=600)
            if rc != 0:
                raise RuntimeError('cmake failed:\n' + o[-2000:] + e[-2000:])
            rc, o, e, _ = sh(['ninja', '-C', os.path.join(w, 'build'), 'uncrustify'], timeout=1800)
            if rc != 0:
                raise RuntimeError('build of /repo failed:\n' + o[-3000:] + e[-2000:])
            objs = []
            for d, dn, fn in os.walk(os.path.join(w, 'build', 'CMakeFiles', 'uncrustify.dir')):
                for f in sorted(fn):
                    if f.endswith('.o') and f != 'uncrustify.cpp.o':
                        objs.append(os.path.join(d, f))
                    elif f == 'uncrustify.cpp.o':
                        # main() renamed: the drivers have their own; cpd and the helper functions stay available
                        ren = os.path.join(w, 'uncrustify_nomain.o')
                        rc, o, e, _ = sh(['objcopy', '--redefine-sym', 'main=unc_real_main', os.path.join(d, f), ren], timeout=60)
                        if rc != 0:
                            raise RuntimeError('objcopy failed: ' + e[-500:])
                        objs.append(ren)
            rc, o, e, _ = sh(['ar', 'rcs', os.path.join(w, 'libunc.a')] + sorted(objs), timeout=300)
            if rc != 0:
                raise RuntimeError('ar failed: ' + e[-1000:])
            open(stamp, 'w').write('%.1f' % (time.time() - t0))
            log('stage P: built /repo tree %s in %.1fs' % (th, time.time() - t0))
    finally:
        fcntl.flock(lock, fcntl.LOCK_UN)
        lock.close()
    b = os.path.join(w, 'build')
    return dict(treehash=th, w=w, build=b, binary=os.path.join(b, 'uncrustify'), libunc=os.path.join(w, 'libunc.a'),
                inc=['-I' + MODELS, '-I' + HARNESS, '-I' + os.path.join(b, 'src'), '-I' + os.path.join(REPO, 'src'), '-I' + b])


# ---------------------------------------------------------------- option table (options.h)
def parse_options_h():
    """name -> dict(type, min, max, default) from /repo/src/options.h"""
    txt = open(os.path.join(REPO, 'src', 'options.h')).read()
    out = {}
    for m in re.finditer(r'extern\s+(Bounded)?Option<\s*([^>]*?)\s*>\s*\n?\s*(\w+)\s*;(\s*//[^\n]*)?', txt):
        bounded, targs, name, cmt = m.groups()
        parts = [x.strip() for x in targs.split(',')]
        d = dict(type=parts[0], min=None, max=None, default=None)
        if bounded:
            d['min'] = int(parts[1])
            d['max'] = int(parts[2])
        dm = re.search(r'=\s*([^\s/]+)', cmt or '')
        if dm:
            d['default'] = dm.group(1)
        out[name] = d
    return out


# ---------------------------------------------------------------- building one instance
class Inconclusive(Exception):
    pass


# logging / diagnostics helpers: empty bodies (DESIGN.md section 2). Matched on the mangled name.
NOOP_RE = re.compile(r'(log_fmt|log_flush|log_rule|log_func|log_sev_on|log_pcf_flags|log_str|log_hex|log_init|'
                     r'get_unqualified_func_name|log_ruleNL|log_ruleStart|prot_the_line|prot_all_lines|prot_some_lines|'
                     r'dump_step|dump_keyword_for_lang|log_get_mask|log_set_mask|'
                     r'6OptionINSt7__cxx1112basic_stringIcSt11char_traitsIcESaIcEEEEC[12]E)')
_havoc_cache = {}
_havoc_lock = __import__('threading').Lock()
OPT_RE = re.compile(r'@_ZN10uncrustify7options(\d+)(\w+)')


def closure_options(ll_path):
    """option objects referenced by function bodies of the closure (not by static constructors)"""
    out = set()
    cur = None
    for line in open(ll_path, errors='replace'):
        if line.startswith('define '):
            m = re.search(r'@([\w.$]+|"[^"]+")\(', line)
            cur = m.group(1) if m else '?'
            continue
        if line.startswith('}'):
            cur = None
            continue
        if cur is None or cur.startswith(('_GLOBAL__sub_I', '__cxx_global_var_init')):
            continue
        for m in OPT_RE.finditer(line):
            n = int(m.group(1))
            rest = m.group(2)
            if len(rest) >= n + 1 and rest[n] == 'E':
                out.add(rest[:n])
    return sorted(out)


def defs_flags(defs):
    return ['-D%s=%s' % (k, v) if v is not None else '-D%s' % k for k, v in sorted(defs.items())]


def compile_closure(prep, ob, dflags, wd, tag, extra_inc):
    harness = os.path.join(HARNESS, ob['harness'])
    entry = ob['entry']
    inc = extra_inc + prep['inc']
    lls = []
    srcs = [harness] + [os.path.join(REPO, 'src', x) if not (os.path.isabs(x) or x.startswith('$')) else x for x in ob.get('extra_tus', [])]
    srcs = [s.replace('$BUILD', prep['build']).replace('$HARNESS', HARNESS) for s in srcs]
    for i, src in enumerate(srcs):
        ll = os.path.join(wd, '%stu%d.ll' % (tag, i))
        flags = list(CLANG_FLAGS) + list(ob.get('clang_flags', []))
        cmd = ['clang++-14'] + flags + inc + dflags + ['-include', 'vp_prelude.h', '-S', '-emit-llvm', src, '-o', ll]
        rc, o, e, _ = sh(cmd, timeout=600)
        if rc != 0:
            raise Inconclusive('clang failed on %s:\n%s' % (src, e[-3000:]))
        lls.append(ll)
    linked = os.path.join(wd, tag + 'linked.ll')
    if len(lls) > 1:
        rc, o, e, _ = sh(['llvm-link-14', '-S'] + lls + ['-o', linked], timeout=300)
        if rc != 0:
            raise Inconclusive('llvm-link failed:\n' + e[-2000:])
    else:
        shutil.copy(lls[0], linked)
    opt = os.path.join(wd, tag + 'closure.ll')
    rc, o, e, _ = sh(['opt-14', '-S', '-enable-new-pm=0', '-internalize', '-internalize-public-api-list=' + ','.join([entry] + sorted(set(ob.get('redirect', {}).values())) + list(ob.get('keep', []))),
                      '-globaldce'] + list(ob.get('post_link_opt', [])) + [linked, '-o', opt], timeout=600)
    if rc != 0:
        raise Inconclusive('opt failed:\n' + e[-2000:])
    for f in lls + [linked]:
        try:
            os.unlink(f)
        except OSError:
            pass
    return opt


def havoc_header(prep, ob, dflags, wd):
    """phase 1 of harnesses with symbolic options: which option objects does the closure read?"""
    key = (ob['harness'], ob['entry'], prep['treehash'])
    with _havoc_lock:
        if key in _havoc_cache:
            return _havoc_cache[key]
        d1 = os.path.join(wd, 'phase1')
        os.makedirs(d1, exist_ok=True)
        open(os.path.join(d1, 'vp_havoc_gen.h'), 'w').write('/* phase 1: empty */\n')
        opt = compile_closure(prep, ob, dflags, d1, 'p1', ['-I' + d1, '-I' + wd])
        names = closure_options(opt)
        pinned = set(ob.get('pinned_options', []))
        txt = '/* generated: option objects read by the closure of %s (regenerated every run) */\n' % ob['entry']
        for n in names:
            txt += ('VP_PIN_OPT(%s)\n' if n in pinned else 'VP_HAVOC_OPT(%s)\n') % n
        shutil.rmtree(d1, ignore_errors=True)
        _havoc_cache[key] = (txt, names)
        return _havoc_cache[key]


def patch_sources(ob, wd):
    """mechanical, regenerated-every-run renames in a copy of a real source file (used to detach one
    function definition so that the harness can supply the environment stub for it in BOTH builds)"""
    for spec in ob.get('patch_sources', []):
        src = os.path.join(REPO, 'src', spec['file'])
        txt = open(src).read()
        for (pat, repl, want) in spec['subs']:
            txt, n = re.subn(pat, repl, txt, flags=re.M)
            if n != want:
                raise Inconclusive('source patch %r matched %d times in %s (expected %d): the code changed shape' % (pat, n, spec['file'], want))
        d = os.path.join(wd, 'patched')
        os.makedirs(d, exist_ok=True)
        open(os.path.join(d, os.path.basename(spec['file'])), 'w').write(txt)


def build_instance(prep, ob, inst, wd):
    """clang -> IR -> C (+ native drivers). Returns dict of artefacts."""
    os.makedirs(wd, exist_ok=True)
    patch_sources(ob, wd)
    if ob.get('gen_headers'):
        for fn, txt in ob['gen_headers'](prep).items():
            open(os.path.join(wd, fn), 'w').write(txt)
    entry = ob['entry']
    defs = dict(ob.get('defs', {}))
    defs.update(inst.get('defs', {}))
    dflags = defs_flags(defs)
    art = dict(wd=wd, entry=entry)
    t0 = time.time()
    txt, names = ('/* no symbolic options */\n', [])
    if ob.get('havoc_options'):
        txt, names = havoc_header(prep, ob, dflags, wd)
    open(os.path.join(wd, 'vp_havoc_gen.h'), 'w').write(txt)
    art['closure_options'] = names
    opt = compile_closure(prep, ob, dflags, wd, '', ['-I' + wd])
    gen = os.path.join(wd, 'gen.c')
    stats = os.path.join(wd, 'stats.json')
    cmd = [sys.executable, os.path.join(ENGINE, 'ir2c.py'), opt, gen, '--entry', entry, '--stats', stats, '--noop-re', NOOP_RE.pattern]
    if ob.get('printf_model'):
        cmd += ['--printf-model']
    if ob.get('cut_re'):
        cmd += ['--cut-re', ob['cut_re']]
    for k in ob.get('keep', []):
        cmd += ['--keep', k]
    for a, b in ob.get('redirect', {}).items():
        cmd += ['--redirect', '%s=%s' % (a, b)]
    for n in ob.get('noop', []):
        cmd += ['--noop', n]
    for g in ob.get('split_globals', ['cpd']):
        cmd += ['--split-global', g]
    rc, o, e, _ = sh(cmd, timeout=600)
    if rc != 0:
        raise Inconclusive('ir2c: ' + e[-2000:])
    art['gen'] = gen
    art['stats'] = json.load(open(stats))
    # external data the translator had to zero-initialise: only objects whose zero state is the real initial state
    # (cpd, stdio handles assigned by the harness, vtables/typeinfo of classes whose virtuals are never called) are acceptable
    bad = [g for g in art['stats']['ext_globals'] if not re.match(r'^@(cpd|stdout|stderr|stdin|__dso_handle|_ZTV\w+|_ZTI\w+|_ZTS\w+|environ)$', g)
           and g.lstrip('@') not in ob.get('zero_ok', [])]
    if bad:
        raise Inconclusive('external data left without its real initialiser (would be modelled as zero): ' + ', '.join(bad[:8]))
    art['closure_ll'] = opt
    art['translate_s'] = time.time() - t0
    if art['stats']['unmodelled']:
        art['unmodelled'] = art['stats']['unmodelled']
    return art


def build_native(prep, ob, inst, art):
    """native drivers: generated C (gcc) and the real functions (g++, real libstdc++)"""
    wd = art['wd']
    defs = dict(ob.get('defs', {}))
    defs.update(inst.get('defs', {}))
    dflags = defs_flags(defs)
    gen_bin = os.path.join(wd, 'gen_native')
    rc, o, e, _ = sh(['gcc', '-O1', '-w', '-fwrapv', '-I' + MODELS, art['gen'], os.path.join(MODELS, 'vp_native.c'), '-o', gen_bin],
                     timeout=600)
    if rc != 0:
        raise Inconclusive('gcc failed on generated C:\n' + e[-3000:])
    real_bin = os.path.join(wd, 'real_native')
    harness = os.path.join(HARNESS, ob['harness'])
    srcs = [harness] + [x.replace('$HARNESS', HARNESS) for x in ob.get('real_extra_tus', [])]
    objs = []
    for i, src in enumerate(srcs):
        obj = os.path.join(wd, 'real%d.o' % i)
        cmd = ['g++', '-O1', '-w', '-ffunction-sections', '-fdata-sections', '-DVP_REAL_STL', '-DNDEBUG', '-std=gnu++11', '-I' + wd] + prep['inc'] + dflags + \
              ['-include', 'vp_prelude.h', '-c', src, '-o', obj]
        rc, o, e, _ = sh(cmd, timeout=600)
        if rc != 0:
            raise Inconclusive('g++ failed on %s:\n%s' % (src, e[-3000:]))
        objs.append(obj)
    main_cpp = os.path.join(wd, 'real_main.cpp')
    open(main_cpp, 'w').write('extern "C" { void vp_rt_init(void); void vp_rt_fini(void); void %s(void); }\n'
                              'int main() { vp_rt_init(); %s(); vp_rt_fini(); return 0; }\n' % (art['entry'], art['entry']))
    nat = os.path.join(wd, 'vp_native.o')
    rc, o, e, _ = sh(['gcc', '-O1', '-c', os.path.join(MODELS, 'vp_native.c'), '-o', nat], timeout=120)
    rc, o, e, _ = sh(['g++', '-O1', '-w', '-Wl,--gc-sections', '-Wl,--allow-multiple-definition', main_cpp] + objs + [nat, prep['libunc'], '-o', real_bin], timeout=600)
    if rc != 0:
        raise Inconclusive('link of real driver failed:\n' + e[-3000:])
    art['gen_bin'] = gen_bin
    art['real_bin'] = real_bin
    return art


def run_native(binary, vec, wd, tag):
    vf = os.path.join(wd, 'vec_%s.bin' % tag)
    with open(vf, 'wb') as f:
        for v in vec:
            f.write(struct.pack('<Q', v & 0xFFFFFFFFFFFFFFFF))
    env = dict(os.environ)
    env['VP_VECTOR'] = vf
    rc, o, e, _ = sh([binary], env=env, timeout=20, cwd=wd)
    ev = [l for l in o.split('\n') if l]
    if rc != 0:
        ev.append('CRASH rc=%d' % rc)
    return ev


def normalise_events(ev):
    """events comparable between model build and real build"""
    out = []
    for l in ev:
        if l.startswith('CRASH'):
            out.append('T')   # a crash of the real build == abort event of the model build
            break
        k = l.split(' ', 1)[0]
        if k == 'T':
            out.append('T')
            break
        out.append(l)
    return out


def validate_translation(ob, inst, art, seed):
    """stage V: generated C vs real functions on concrete vectors"""
    rnd = random.Random(seed * 7919 + 17)
    vecs = [list(v) for v in inst.get('vectors', [])] + [list(v) for v in ob.get('vectors', [])]
    nrand = ob.get('random_vectors', 24)
    width = ob.get('vector_len', 48)
    for i in range(nrand):
        mode = i % 4
        if mode == 0:
            vecs.append([rnd.getrandbits(64) for _ in range(width)])
        elif mode == 1:
            vecs.append([rnd.getrandbits(8) for _ in range(width)])
        elif mode == 2:
            vecs.append([rnd.choice([0, 1, 2, 3, 9, 10, 13, 32, 34, 39, 42, 47, 65, 92, 97, 0x7f, 0x80, 0xc3, 0xe2, 0xff, 0xfe, 0xef, 0xbb, 0xbf]) for _ in range(width)])
        else:
            vecs.append([rnd.getrandbits(rnd.choice([1, 2, 4, 16, 31, 32])) for _ in range(width)])
    compared = 0
    skipped = 0
    for i, v in enumerate(vecs):
        g = run_native(art['gen_bin'], v, art['wd'], 'g')
        r = run_native(art['real_bin'], v, art['wd'], 'r')
        if any(l.startswith('C ') for l in g):
            skipped += 1   # model capacity exceeded on this vector: outside the bound
            continue
        if normalise_events(g) != normalise_events(r):
            raise Inconclusive('translator validation mismatch on vector %d %s:\n gen : %s\n real: %s'
                               % (i, v[:12], g[-6:], r[-6:]))
        compared += 1
    return dict(vectors=compared, skipped_capacity=skipped)


# ---------------------------------------------------------------- stage S
RES_RE = re.compile(r'^\[(?P<id>[^\]]+)\] (?:line (?P<line>\d+) )?(?P<desc>.*): (?P<st>SUCCESS|FAILURE|UNKNOWN|ERROR)$')


def cbmc_cmd(ob, inst, art, extra=()):
    unwind = inst.get('unwind', ob.get('unwind', 4))
    cmd = ['cbmc', art['gen'], '-I', MODELS, '-D', 'VP_MAXND=%d' % ob.get('maxnd', 64), '--unwind', str(unwind)] + CBMC_CHECKS + \
          ['--object-bits', str(ob.get('object_bits', 16)), '--drop-unused-functions', '--verbosity', '8']
    us = dict(ob.get('unwindset', {}))
    us.update(inst.get('unwindset', {}))
    if us:
        loops = art.get('loops')
        if loops is None:
            rc, o, e, _ = sh(['cbmc', art['gen'], '-I', MODELS, '--show-loops'], timeout=300)
            loops = re.findall(r'^Loop (\S+):', o, re.M)
            art['loops'] = loops
        sets = []
        for l in loops:
            for pat, bound in us.items():      # first matching pattern wins
                if re.search(pat, l):
                    sets.append('%s:%d' % (l, bound))
                    break
        if sets:
            cmd += ['--unwindset', ','.join(sets)]
    cmd += list(ob.get('cbmc_flags', [])) + list(extra)
    return cmd


def parse_cbmc(out):
    props = []
    for l in out.split('\n'):
        m = RES_RE.match(l.strip())
        if m:
            props.append(dict(id=m.group('id'), line=m.group('line'), desc=m.group('desc'), status=m.group('st')))
    stats = {}
    m = re.search(r'size of program expression: (\d+) steps', out)
    if m:
        stats['steps'] = int(m.group(1))
    vs = re.findall(r'(\d+) variables, (\d+) clauses', out)
    if vs:
        stats['variables'] = int(vs[0][0])
        stats['clauses'] = int(vs[0][1])
    stats['solver_s'] = round(sum(float(x) for x in re.findall(r'Runtime decision procedure: ([\d.e+-]+)s', out)), 3)
    m = re.search(r'Runtime Symex: ([\d.e+-]+)s', out)
    if m:
        stats['symex_s'] = float(m.group(1))
    stats['vccs'] = None
    m = re.search(r'Generated (\d+) VCC\(s\), (\d+) remaining', out)
    if m:
        stats['vccs'] = int(m.group(1))
        stats['vccs_remaining'] = int(m.group(2))
    return props, stats


def classify(desc):
    for p in ('A:', 'T:', 'U:', 'W:', 'C:', 'X:'):
        if desc.startswith(p):
            return p[0]
    if 'unwinding assertion' in desc:
        return 'UNWIND'
    return 'SAFETY'


def extract_nd_trace(out, prop_id):
    """nondet values (in call order) from the trace of one failed property"""
    idx = out.find('Trace for ' + prop_id + ':')
    if idx < 0:
        idx = out.find('Counterexample:')
        if idx < 0:
            return None
    seg = out[idx:]
    nxt = seg.find('\nTrace for ', 10)
    if nxt > 0:
        seg = seg[:nxt]
    vals = {}
    for m in re.finditer(r'vp_nd_trace\[(\d+)l?\]=(\d+)', seg):
        vals[int(m.group(1))] = int(m.group(2))
    if not vals:
        return []
    return [vals.get(i, 0) for i in range(max(vals) + 1)]


def run_cbmc(ob, inst, art, tier):
    tmo = inst.get('timeout', ob.get('timeout', {}).get(tier, 600 if tier == 'quick' else 3000))
    mem = ob.get('mem_gb', 12 if tier == 'quick' else 24)
    cmd = cbmc_cmd(ob, inst, art, extra=['--trace'])
    rc, o, e, dt = sh(cmd, timeout=tmo, mem_gb=mem)
    art['cbmc_cmd'] = ' '.join(cmd)
    art['cbmc_s'] = round(dt, 2)
    open(os.path.join(art['wd'], 'cbmc.out'), 'w').write(o + '\n--stderr--\n' + e)
    if rc == -9:
        raise Inconclusive('cbmc timeout after %ds' % tmo)
    if 'VERIFICATION' not in o:
        raise Inconclusive('cbmc gave no verdict (rc=%d): %s' % (rc, (o[-800:] + e[-1500:])))
    props, stats = parse_cbmc(o)
    if not props:
        raise Inconclusive('cbmc output had no property results')
    return props, stats, o


def cex_for(ob, inst, art, prop_id, tier):
    # the main run already carries --trace: one trace per failed property
    if art.get('cbmc_out'):
        tr = extract_nd_trace(art['cbmc_out'], prop_id)
        if tr is not None and ('Trace for ' + prop_id + ':') in art['cbmc_out']:
            return tr
    cmd = cbmc_cmd(ob, inst, art, extra=['--property', prop_id, '--trace'])
    rc, o, e, dt = sh(cmd, timeout=ob.get('timeout', {}).get(tier, 900), mem_gb=ob.get('mem_gb', 16))
    open(os.path.join(art['wd'], 'cex_%s.out' % re.sub(r'\W', '_', prop_id)), 'w').write(o)
    return extract_nd_trace(o, prop_id)


# ---------------------------------------------------------------- one obligation instance
def run_instance(prep, ob, inst, tier, seed, scratch):
    """returns result dict: status in {pass, violation, inconclusive}"""
    iid = ob['id'] + ('-' + inst['name'] if inst.get('name') else '')
    wd = os.path.join(scratch, re.sub(r'[^\w.-]', '_', iid))
    shutil.rmtree(wd, ignore_errors=True)
    res = dict(id=iid, obligation=ob['id'], instance=inst.get('name', ''), bound=inst.get('bound', ob.get('bound', '')),
               status='inconclusive', failures=[], witnesses_reached=0, witnesses_total=0)
    t0 = time.time()
    try:
        art = build_instance(prep, ob, inst, wd)
        res['functions_encoded'] = art['stats']['functions']
        res['ir_instructions'] = art['stats']['insts']
        res['zero_init_external_globals'] = art['stats']['ext_globals']
        res['unmodelled_externals_in_closure'] = art['stats']['unmodelled']
        build_native(prep, ob, inst, art)
        res['translator_validation'] = validate_translation(ob, inst, art, seed)
        props, stats, out = run_cbmc(ob, inst, art, tier)
        art['cbmc_out'] = out
        res['cbmc'] = stats
        res['cbmc_cmd'] = art['cbmc_cmd']
        res['cbmc_s'] = art['cbmc_s']
        res['unwind'] = inst.get('unwind', ob.get('unwind', 4))
        res['properties_checked'] = len(props)
        byclass = {}
        for p in props:
            byclass.setdefault(classify(p['desc']), []).append(p)
        res['assertions'] = sorted(set(p['desc'][2:] for p in byclass.get('A', [])))
        incon = []
        for k in ('C', 'X', 'UNWIND'):
            for p in byclass.get(k, []):
                if p['status'] != 'SUCCESS':
                    incon.append('%s %s' % (p['id'], p['desc']))
        wit = byclass.get('W', [])
        res['witnesses_total'] = len(wit)
        res['witnesses_reached'] = sum(1 for p in wit if p['status'] == 'FAILURE')
        unreached = [p['desc'][2:] for p in wit if p['status'] != 'FAILURE']
        required = [w for w in unreached if not w.startswith('opt:')]
        if required:
            incon.append('vacuity: witness not reachable: ' + ', '.join(required))
        res['witnesses_unreached_optional'] = [w for w in unreached if w.startswith('opt:')]
        cands = []
        notes = []
        for k in ('A', 'T', 'U', 'SAFETY'):
            for p in byclass.get(k, []):
                if p['status'] != 'SUCCESS':
                    if k == 'SAFETY' and 'same object violation' in p['desc'] and re.match(r'f__ZNK?St|f__ZSt|f__ZN9__gnu_cxx', p['id']):
                        # libstdc++'s aliasing test (_M_disjunct) orders pointers into different objects: defined
                        # through std::less, flagged by CBMC's pointer model, never reproducible natively (DESIGN section 1, UB-NOTE)
                        notes.append('%s %s' % (p['id'], p['desc']))
                        continue
                    cands.append(p)
        res['ub_notes'] = notes
        # sample case from a reached witness
        if wit and ob.get('sample_witness', True) and art['cbmc_s'] < 40:
            w0 = [p for p in wit if p['status'] == 'FAILURE']
            if w0:
                tr = cex_for(ob, inst, art, w0[-1]['id'], tier)
                if tr is not None:
                    res['sample_case'] = dict(witness=w0[-1]['desc'][2:], nondet_inputs=tr[:ob.get('vector_len', 48)])
        if incon:
            res['status'] = 'inconclusive'
            res['reason'] = '; '.join(incon[:6])
        # replay candidates
        seen = set()
        for p in cands[:ob.get('max_cex', 4)]:
            key = p['desc']
            if key in seen:
                continue
            seen.add(key)
            tr = cex_for(ob, inst, art, p['id'], tier)
            f = dict(property=p['id'], desc=p['desc'], kind=classify(p['desc']), inputs=tr, replayed=False)
            if tr is not None:
                ev = run_native(art['real_bin'], tr, art['wd'], 'cex')
                f['real_events'] = ev[-8:]
                want = None
                if f['kind'] == 'A':
                    want = 'A-FAIL ' + p['desc'][2:]
                    f['replayed'] = any(l.startswith(want + ' ') or l == want for l in ev)
                elif f['kind'] in ('T', 'U', 'SAFETY'):
                    gv = run_native(art['gen_bin'], tr, art['wd'], 'cexg')
                    f['gen_events'] = gv[-8:]
                    f['replayed'] = any(l.startswith(('T ', 'U ', 'CRASH')) for l in ev)
            res['failures'].append(f)
        if res['failures']:
            if any(f['replayed'] for f in res['failures']):
                res['status'] = 'violation'
            else:
                res['status'] = 'inconclusive'
                res['reason'] = 'counterexample did not replay on the real functions (R1): ' + \
                                '; '.join(f['desc'] for f in res['failures'])
        elif not incon:
            res['status'] = 'pass'
    except Inconclusive as e:
        res['status'] = 'inconclusive'
        res['reason'] = str(e)[:3000]
    except Exception as e:  # engine bug: never a pass
        import traceback
        res['status'] = 'inconclusive'
        res['reason'] = 'engine error: ' + traceback.format_exc()[-2000:]
    res['wall_s'] = round(time.time() - t0, 2)
    if res['status'] == 'pass' and not os.environ.get('VP_KEEP'):
        shutil.rmtree(wd, ignore_errors=True)
    return res
