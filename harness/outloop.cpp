/* OUT-LOOP: the main loop of the real output_text() (src/output.cpp) on the chunk list
 * [NEWLINE(n0), A, B, NEWLINE(1)] with symbolic columns, kinds, flags and options.
 * Owners: C02 (every chunk written once, in order, nothing else), C17 (indentation obeys the tab
 * policy, no trailing blank), C18 (leading whitespace has exactly the width of the chosen column),
 * C20 (a newline chunk is written as exactly its count of terminators).
 * Solver build: write_char() -> byte recorder (see out.cpp); reindent_line() and the comment writers
 * are cut out of the closure (columns are assumed non-overlapping, kinds are not comments). */
#define private public
#define protected public
#include "/repo/src/output.cpp"
#undef private
#undef protected
#include "vp_opts.h"
VP_ZERO_GLOBAL(cp_data_t, cpd);

#ifndef TS
#define TS 4
#endif
#ifndef COLMAX
#define COLMAX 9
#endif
static std::deque<UINT8> g_out;
#ifdef VP_REAL_STL
static size_t out_size() { return g_out.size(); }
static UINT8 out_at(size_t i) { return g_out[i]; }
#else
static UINT8  vp_sink[VP_CAP_U8];
static size_t vp_sink_n;
extern "C" __attribute__((noinline)) void vp_sink_char(int ch)
{
   if (vp_sink_n >= VP_CAP_U8) { vp_capacity("output sink"); return; }
   vp_sink[vp_sink_n++] = (UINT8)ch;
}
static size_t out_size() { return vp_sink_n; }
static UINT8 out_at(size_t i) { return vp_sink[i < VP_CAP_U8 ? i : 0]; }
#endif

/* token kinds concrete per instance (they gate the blank-buffer loops through output_trailspace); columns, flags, options symbolic */
#ifndef AKIND
#define AKIND CT_WORD
#endif
static Chunk *vp_tok(int ch, size_t col)
{
   Chunk c;
   c.SetType(ch == 'a' ? AKIND : CT_WORD);
   c.SetParentType(CT_NONE);
   c.SetOrigLine(2); c.SetOrigCol((size_t)vp_range(1, 40)); c.SetPpLevel(0);
   c.SetColumn(col);
   c.SetColumnIndent((size_t)vp_range(0, COLMAX));
   c.SetLevel((size_t)vp_range(0, 2));
   c.SetAfterTab(vp_bool());
   if (vp_bool()) { c.m_flags |= PCF_IN_PREPROC; }
   if (vp_bool()) { c.m_flags |= PCF_WAS_ALIGNED; }
   c.Str().append(ch);
   Chunk *p = c.CopyAndAddBefore(Chunk::NullChunkPtr);
   /* ordinary code tokens: newline/continuation, comment, ignored and empty kinds take other branches of the loop */
   vp_assume(!p->IsNewline() && !p->IsComment() && p->IsNot(CT_NL_CONT) && p->IsNot(CT_IGNORED) && p->IsNot(CT_JUNK) && p->IsNot(CT_PP_DEFINE));
   return p;
}
extern "C" void vp_out_loop()
{
   vp_havoc_options();
   vp::set(options::output_tab_size, TS);
   vp::set(options::debug_print_version, false);
   numbering_status = false;
   cpd.bout = &g_out; cpd.fout = nullptr; cpd.enc = char_encoding_e::e_ASCII; cpd.bom = false;
   cpd.newline = "\n";
   cpd.frag_cols = 0;
   size_t n0 = (size_t)vp_range(0, 3);
   { Chunk c; c.SetType(CT_NEWLINE); c.SetNlCount(n0); c.SetOrigLine(1); c.SetPpLevel(0); c.CopyAndAddBefore(Chunk::NullChunkPtr); }
   size_t colA = (size_t)vp_range(1, COLMAX);
   size_t colB = (size_t)vp_range(2, COLMAX + 3);
   vp_assume(colB >= colA + 1);                  /* columns never overlap here (the push-right of reindent_line is not part of this obligation) */
   Chunk *A = vp_tok('a', colA);
   Chunk *B = vp_tok('b', colB);
   { Chunk c; c.SetType(CT_NEWLINE); c.SetNlCount(1); c.SetOrigLine(2); c.SetPpLevel(0); c.CopyAndAddBefore(Chunk::NullChunkPtr); }
   output_text(nullptr);
   /* ---- single pass over the bytes written */
   size_t n = out_size();
   size_t nls = 0, posA = 0, posB = 0, other = 0;
   bool   seenA = false, seenB = false;
   for (size_t i = 0; i < n; i++)
   {
      UINT8 c = out_at(i);
      if (c == '\n') { nls++; }
      else if (c == 'a' && !seenA) { seenA = true; posA = i; }
      else if (c == 'b' && !seenB) { seenB = true; posB = i; }
      else if (c != ' ' && c != '\t') { other++; }
   }
   vp_assert(seenA && seenB && posA < posB && other == 0, "C02:the token texts are not written exactly once, in list order, with nothing but white space between them");
   vp_assert(nls == n0 + 1, "C20:a newline chunk was not written as exactly its count of line terminators");
   vp_assert(posA >= n0 && n > 0 && out_at(n - 1) == '\n' && posB + 2 == n, "C17:bytes other than the terminator follow the last token of the line (trailing blanks)");
   /* leading white space of the line: bytes n0 .. posA */
   size_t col = 1, ntab = 0, nsp = 0;
   bool   sp_before_tab = false;
   for (size_t i = n0; i < posA; i++)
   {
      UINT8 c = out_at(i);
      if (c == '\t') { if (nsp > 0) { sp_before_tab = true; } ntab++; col = ((col - 1) / TS + 1) * TS + 1; }
      else { nsp++; col++; }
   }
   vp_assert(col == colA, "C18:leading white space does not have the display width of the chosen column");
   int iwt = A->IsPreproc() ? (int)options::pp_indent_with_tabs() : (int)options::indent_with_tabs();
   if (A->IsPreproc() && iwt == -1) { iwt = (int)options::indent_with_tabs(); }
   if (iwt == 0) { vp_assert(ntab == 0, "C17:tab in the indentation although tabs are disabled for indentation"); }
   vp_assert(!sp_before_tab, "C17:a space precedes a tab in the indentation");
   /* the gap between the two tokens has the width the columns ask for */
   size_t c2 = colA + 1;
   for (size_t i = posA + 1; i < posB; i++)
   {
      UINT8 c = out_at(i);
      if (c == '\t') { c2 = ((c2 - 1) / TS + 1) * TS + 1; } else { c2++; }
   }
   vp_assert(c2 == colB, "C02:second token not placed in its column");
   vp_witness("end");
}
