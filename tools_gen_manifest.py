#!/usr/bin/env python3
"""Regenerates MANIFEST.json from obligations/ (claimed properties) + manifest_text.py."""
import json, os, sys
V = os.path.dirname(os.path.abspath(__file__))
sys.path.insert(0, V)
import obligations
import manifest_text as mt
props = [json.loads(l)['id'] for l in open(os.path.join(V, 'properties.jsonl'))]
checks = []
na = []
for pid in props:
    if pid in obligations.PROPERTIES and pid in mt.CLAIMS:
        c = mt.CLAIMS[pid]
        checks.append(dict(property_id=pid, quick_cmd='bin/check %s --tier quick' % pid,
                           thorough_cmd='bin/check %s --tier thorough' % pid,
                           evidence_file='evidence/%s.json' % pid,
                           replay_cmd_template='bin/check %s --replay {path}' % pid,
                           engine='ir2c-cbmc',
                           level_claimed=dict(category='model_checking', text=c['text'], design_ref=c.get('design_ref', 'DESIGN.md section 4')),
                           level_note=c['note'],
                           technique='bounded symbolic execution of the real functions (clang IR -> C -> CBMC/SAT), obligations: ' + ', '.join(obligations.PROPERTIES[pid]['obligations'])))
    else:
        na.append(dict(property_id=pid, reason=mt.NOT_APPLICABLE.get(pid, 'no obligation of this property is built yet in this revision of /verif (see DESIGN.md section 4 for the plan)')))
m = dict(version=1,
         setup_cmd='python3 -m compileall -q engine obligations bin/check && mkdir -p evidence',
         hooks=dict(guard='UNCRUSTIFY_VERIF', enable='cmake -DCMAKE_CXX_FLAGS=-DUNCRUSTIFY_VERIF (done by engine/vp.py prepare(); no hook is compiled into uncrustify: harnesses #include the real .cpp files)',
                    baseline_off_cmd='cmake -G Ninja -S /repo -B /repo/_build && cmake --build /repo/_build && ctest --test-dir /repo/_build -j8 --timeout 900',
                    source_commits=[], add_only=True),
         engines=[dict(name='ir2c-cbmc', path='engine/', serves_properties=[c['property_id'] for c in checks],
                       kind_free_text='clang-14 -O1 LLVM IR of the real uncrustify translation units -> typed C (engine/ir2c.py) -> CBMC 6.11 bounded model checking; counterexamples replayed on the g++ build of the same functions')],
         checks=checks, notes=mt.NOTES, not_applicable=na)
json.dump(m, open(os.path.join(V, 'MANIFEST.json'), 'w'), indent=1)
print('claimed:', [c['property_id'] for c in checks])
