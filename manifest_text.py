"""Per-property claim texts for MANIFEST.json (kept next to the obligations)."""
NOTES = ('Every check: stage P builds /repo working tree in /var/tmp/uncrustify-verif/<treehash>; harness TUs #include the real '
         '.cpp files; IR->C translation is validated on every run against the g++ build of the same functions; exit 2 + '
         'INCONCLUSIVE lines = no verdict (never counted as success).')
NOT_APPLICABLE = {}
CLAIMS = {
    'C09': dict(
        text='Bounded model checking of the real codec (src/unicode.cpp): for ALL byte strings up to the stated length the decode->write '
             'round trip is byte-identical or refused; for ALL code points the UTF-8/UTF-16 encoders equal the RFC reference and are '
             'inverted by the decoders; decoding/writing commutes with transcoding for all sequences of k scalar values. This is the '
             'level at which the rare inputs (overlong forms, surrogates, BOM-less UTF-16) are all covered at once.',
        note='Bounds: quick n<=4 bytes / k<=2 code points, thorough n<=8 / k<=3. Assumes the container models (models/vpstl.h) for '
             'std::vector/deque, default BOM policy in UNI-RT. Not decided: passes between tokenizer and output editing code points.',
        design_ref='DESIGN.md section 4, C09'),
}
