/* In-memory model of the libc file API used by uncrustify's in-place rewriting
 * protocol (DESIGN.md section 2). Ordinary C++ compiled into BOTH builds: to LLVM IR for
 * the solver, natively (overriding libc's symbols in the driver executable) for
 * translator validation and replay - so model and reference cannot drift apart.
 *
 *  - a fixed set of named files (concrete path strings chosen by the harness),
 *    content = byte array <= VP_FS_L (the md5 side file gets its own, longer slot);
 *  - every call is a CRASH POINT (vp_crash_at) and a FAULT POINT (vp_fault_at1/2):
 *    fopen -> NULL, fputc -> EOF (sticky: the disk stays full), fwrite -> short write,
 *    fclose -> EOF with the unflushed tail lost, rename/unlink -> -1, stat/open -> -1;
 *  - exit() and a crash evaluate the harness's at-termination assertions, then stop. */
#ifndef VP_FSMODEL_H
#define VP_FSMODEL_H
#ifndef VP_FS_L
#define VP_FS_L 2
#endif
#define VP_FS_MD5LEN 40
#define VP_FS_NFILES 5
#define VP_FS_NHANDLES (VP_FS_NFILES + 1)   /* one stream per file: the handle of a path is a constant */

/* flat arrays (no arrays of structs holding arrays: keeps CBMC's field-sensitive memory model simple) */
#define VP_FS_CAP ((VP_FS_L + 1) > VP_FS_MD5LEN ? (VP_FS_L + 1) : VP_FS_MD5LEN)
struct vp_node_view { bool exists; unsigned len; unsigned char *d; };
struct vp_handle
{
   int      slot;      /* index into vp_fs, VP_FS_NFILES = the md5 side file */
   bool     open;
   bool     wr;
   bool     err;       /* sticky write error */
   unsigned pos;
   unsigned fail_after; /* a write fault scheduled for this handle: writes fail once this many bytes are in the file */
};
static const char *vp_fs_name[VP_FS_NFILES + 1];
static bool          vp_n_exists[VP_FS_NFILES + 1];
static unsigned      vp_n_len[VP_FS_NFILES + 1];
static unsigned char vp_n_data[(VP_FS_NFILES + 1) * VP_FS_CAP];
static vp_handle   vp_fh[VP_FS_NHANDLES];
static char        vp_console_obj;                 /* its address stands for stdout/stderr */
static unsigned    vp_ncalls;                      /* libc-level file operations so far */
static unsigned    vp_crash_at = ~0u, vp_fault_at1 = ~0u, vp_fault_at2 = ~0u;
static unsigned    vp_nfaults;                     /* faults that actually fired */
static unsigned    vp_diag;                        /* bytes sent to the console (diagnostics) */
static unsigned    vp_wopens;                      /* files opened for writing */
static unsigned    vp_mutations;                   /* rename/unlink/mkdir/utime/write-open calls */
static int         vp_exit_status = -1;

/* supplied by the harness entry: how = 0 normal return, 1 exit(status), 2 crash */
static void vp_at_termination(int how, int status);

static inline int vp_slot_of(const char *path)
{
   for (int i = 0; i <= VP_FS_NFILES; i++)
   {
      if (vp_fs_name[i] != 0 && strcmp(path, vp_fs_name[i]) == 0) { return i; }
   }
   return -1;
}
/* A crash (kill -9, power loss) before the k-th file operation: from then on nothing the process
 * does reaches the file system - every later operation fails without effect - and whatever was
 * written to a file still open for writing may be only partly there. The run is then carried to
 * its end and the at-termination assertions are evaluated once, over the state frozen at the
 * crash (equivalent to evaluating them at the crash point, and far cheaper to encode). */
static bool vp_dead;
static unsigned vp_crash_keep, vp_fault_keep1, vp_fault_keep2;   /* how much of a partly written file survives */
static inline bool vp_tick()
{
   if (!vp_dead && vp_ncalls == vp_crash_at)
   {
      vp_dead = true;
      for (int i = 0; i < VP_FS_NHANDLES; i++)
      {
         if (vp_fh[i].open && vp_fh[i].wr)
         {
            unsigned keep = vp_crash_keep;   /* chosen once, up front (fewer solver variables than a choice per call) */
            if (keep < vp_n_len[vp_fh[i].slot]) { vp_n_len[vp_fh[i].slot] = keep; }
         }
      }
   }
   if (vp_dead) { return true; }
   bool f = (vp_ncalls == vp_fault_at1) || (vp_ncalls == vp_fault_at2);
   vp_ncalls++;
   if (f) { vp_nfaults++; }
   return f;
}
static inline bool vp_is_console(FILE *f) { return f == 0 || (void *)f == (void *)&vp_console_obj; }
static inline vp_handle *vp_h(FILE *f)
{
   vp_handle *h = (vp_handle *)(void *)f;    /* fopen() only ever returns &vp_fh[slot] */
   if (!h->open) { vp_abort("stdio call on a FILE* that is not open"); }
   return h;
}
static inline bool vp_node_exists(int s) { return vp_n_exists[s]; }
static inline unsigned vp_node_len(int s) { return vp_n_len[s]; }
static inline unsigned vp_node_cap(int s) { return (s == VP_FS_NFILES) ? VP_FS_MD5LEN : VP_FS_L; }
static inline unsigned char vp_node_get(int s, unsigned i) { return vp_n_data[(unsigned)s * VP_FS_CAP + (i < VP_FS_CAP ? i : 0)]; }
static inline void vp_node_put(int s, unsigned i, unsigned char c) { if (i < VP_FS_CAP) { vp_n_data[(unsigned)s * VP_FS_CAP + i] = c; } }
static inline void vp_node_append(int s, unsigned char c)
{
   if (vp_n_len[s] >= vp_node_cap(s)) { vp_capacity("file longer than the model allows"); return; }
   vp_node_put(s, vp_n_len[s], c);
   vp_n_len[s]++;
}
static inline void vp_node_set_len(int s, unsigned n) { vp_n_len[s] = n; }
static inline void vp_node_set_exists(int s, bool e) { vp_n_exists[s] = e; }

extern "C" {
FILE *fopen(const char *path, const char *mode)
{
   bool fail = vp_tick();
   bool wr   = (mode[0] == 'w');
   int  s    = vp_slot_of(path);
   if (wr && !vp_dead) { vp_wopens++; vp_mutations++; }
   if (fail) { return 0; }
   if (s < 0)
   {
      if (wr) { vp_unmodelled("fopen for writing of a path the harness did not declare"); }
      return 0;
   }
   if (!wr && !vp_node_exists(s)) { return 0; }
   {
      int i = s;
      if (vp_fh[i].open) { vp_capacity("file opened twice at the same time"); return 0; }
      {
         vp_fh[i].open = true; vp_fh[i].slot = s; vp_fh[i].wr = wr; vp_fh[i].err = false; vp_fh[i].pos = 0;
         vp_fh[i].fail_after = ~0u;
         if (wr)
         {
            vp_node_set_exists(s, true);
            vp_node_set_len(s, 0);
            /* the stream of fputc() calls on this handle is one fault point (disk full after k bytes) */
            if (vp_tick() && !vp_dead) { vp_fh[i].fail_after = (vp_nfaults <= 1) ? vp_fault_keep1 : vp_fault_keep2; }
         }
         return (FILE *)(void *)&vp_fh[i];
      }
   }
}
int fputc(int c, FILE *f)
{
   if (vp_is_console(f)) { vp_diag++; return c; }
   vp_handle *h = vp_h(f);
   if (vp_dead || h->err || !h->wr || vp_node_len(h->slot) >= h->fail_after) { h->err = true; return EOF; }
   vp_node_append(h->slot, (unsigned char)c);
   return c;
}
int putc(int c, FILE *f) { return fputc(c, f); }
int fputs(const char *s, FILE *f)
{
   for (unsigned i = 0; s[i] != 0; i++) { if (fputc(s[i], f) == EOF) { return EOF; } }
   return 1;
}
int puts(const char *s) { (void)s; vp_diag++; return 1; }

size_t fwrite(const void *p, size_t size, size_t n, FILE *f)
{
   if (vp_is_console(f)) { vp_diag++; return n; }
   vp_handle *h = vp_h(f);
   bool   fail  = vp_tick();
   size_t total = size * n;
   if (vp_dead || h->err || !h->wr) { h->err = true; return 0; }
   size_t todo = total;
   if (fail) { size_t k = (vp_nfaults <= 1) ? vp_fault_keep1 : vp_fault_keep2; todo = (k < total) ? k : (total > 0 ? total - 1 : 0); h->err = true; }
   for (size_t i = 0; i < todo; i++) { vp_node_append(h->slot, ((const unsigned char *)p)[i]); }
   return (size == 0) ? 0 : todo / size;
}
int ferror(FILE *f) { if (vp_is_console(f)) { return 0; } return vp_h(f)->err ? 1 : 0; }
int fflush(FILE *f) { (void)f; return 0; }
int fclose(FILE *f)
{
   if (vp_is_console(f)) { return 0; }
   vp_handle *h = vp_h(f);
   bool fail = vp_tick();
   h->open = false;
   if (vp_dead) { return EOF; }
   if (h->wr && fail)
   {
      /* the final flush failed: an arbitrary tail of what was written is lost */
      unsigned keep = (vp_nfaults <= 1) ? vp_fault_keep1 : vp_fault_keep2;
      if (keep < vp_node_len(h->slot)) { vp_node_set_len(h->slot, keep); }
      return EOF;
   }
   /* glibc: an earlier write error only sets the stream's error indicator (ferror); fclose() itself fails only
    * when its own flush/close fails - confirmed on the binary with a short write under RLIMIT_FSIZE */
   return 0;
}
size_t fread(void *p, size_t size, size_t n, FILE *f)
{
   if (vp_is_console(f)) { return 0; }
   vp_handle *h = vp_h(f);
   bool   fail  = vp_tick();
   if (fail || size == 0) { return 0; }
   size_t items = 0;
   unsigned len = vp_node_len(h->slot);
   for (size_t k = 0; k < n; k++)
   {
      if (h->pos + size > len) { break; }
      for (size_t j = 0; j < size; j++) { ((unsigned char *)p)[k * size + j] = vp_node_get(h->slot, h->pos + (unsigned)j); }
      h->pos += (unsigned)size;
      items++;
   }
   return items;
}
char *fgets(char *buf, int n, FILE *f)
{
   if (vp_is_console(f)) { return 0; }
   vp_handle *h = vp_h(f);
   bool fail = vp_tick();
   unsigned len = vp_node_len(h->slot);
   if (fail || h->pos >= len || n < 2) { return 0; }
   int k = 0;
   while (k < n - 1 && h->pos < len)
   {
      char c = (char)vp_node_get(h->slot, h->pos++);
      buf[k++] = c;
      if (c == '\n') { break; }
   }
   buf[k] = 0;
   return buf;
}
int feof(FILE *f) { if (vp_is_console(f)) { return 1; } vp_handle *h = vp_h(f); return h->pos >= vp_node_len(h->slot); }
int stat(const char *path, struct stat *st)
{
   bool fail = vp_tick();
   int  s    = vp_slot_of(path);
   if (fail || s < 0 || !vp_node_exists(s)) { return -1; }
   memset(st, 0, sizeof(*st));
   st->st_size = vp_node_len(s);
   return 0;
}
int open(const char *path, int flags, ...)
{
   bool fail = vp_tick();
   int  s    = vp_slot_of(path);
   if (flags != O_RDONLY) { vp_unmodelled("open() for writing"); }
   if (fail || s < 0 || !vp_node_exists(s)) { return -1; }
   if (vp_fh[s].open) { vp_capacity("file opened twice at the same time"); return -1; }
   vp_fh[s].open = true; vp_fh[s].slot = s; vp_fh[s].wr = false; vp_fh[s].err = false; vp_fh[s].pos = 0;
   return 3 + s;
}
ssize_t read(int fd, void *buf, size_t n)
{
   if (fd < 3 || fd >= 3 + VP_FS_NHANDLES || !vp_fh[fd - 3].open) { vp_abort("read() on a descriptor that is not open"); return -1; }
   vp_handle *h = &vp_fh[fd - 3];
   bool fail = vp_tick();
   if (fail) { return -1; }
   unsigned len = vp_node_len(h->slot);
   size_t   k   = 0;
   while (k < n && h->pos < len) { ((unsigned char *)buf)[k++] = vp_node_get(h->slot, h->pos++); }
   return (ssize_t)k;
}
int close(int fd)
{
   if (fd < 3 || fd >= 3 + VP_FS_NHANDLES || !vp_fh[fd - 3].open) { vp_abort("close() on a descriptor that is not open"); return -1; }
   vp_tick();
   vp_fh[fd - 3].open = false;
   return 0;
}
int rename(const char *from, const char *to)
{
   bool fail = vp_tick();
   int  a = vp_slot_of(from), b = vp_slot_of(to);
   if (!vp_dead) { vp_mutations++; }
   if (fail) { return -1; }
   if (a < 0 || b < 0 || a == VP_FS_NFILES || b == VP_FS_NFILES) { vp_unmodelled("rename of a path the harness did not declare"); return -1; }
   if (!vp_n_exists[a]) { return -1; }
   vp_n_exists[b] = true;            /* atomic replacement */
   vp_n_len[b]    = vp_n_len[a];
   for (unsigned i = 0; i <= VP_FS_L; i++) { vp_node_put(b, i, vp_node_get(a, i)); }
   vp_n_exists[a] = false;
   vp_n_len[a]    = 0;
   return 0;
}
int unlink(const char *path)
{
   bool fail = vp_tick();
   int  s    = vp_slot_of(path);
   if (!vp_dead) { vp_mutations++; }
   if (fail || s < 0 || !vp_node_exists(s)) { return -1; }
   vp_node_set_exists(s, false);
   vp_node_set_len(s, 0);
   return 0;
}
int mkdir(const char *path, mode_t m) { (void)path; (void)m; vp_mutations++; vp_unmodelled("mkdir (harness paths have no directory part)"); return -1; }
int utime(const char *path, const struct utimbuf *t) { (void)path; (void)t; vp_tick(); vp_mutations++; return 0; }
time_t time(time_t *t) { if (t) { *t = 0; } return 0; }
__attribute__((noreturn)) void exit(int status)
{
   vp_exit_status = status;
   vp_at_termination(vp_dead ? 2 : 1, status);
   vp_stop();
   for (;;) {}
}
}

/* ---- printf family. Solver build: ir2c expands every call with a constant format into the
 * vp_fmt_* calls below. Reference build: fprintf is overridden and formats with vsnprintf. */
static char   *vp_fmt_buf;
static size_t  vp_fmt_cap;
static FILE   *vp_fmt_file;
static unsigned vp_fmt_n;
static inline void vp_fmt_put(char c)
{
   if (vp_fmt_buf != 0) { if (vp_fmt_n + 1 < vp_fmt_cap) { vp_fmt_buf[vp_fmt_n] = c; } }
   else { fputc(c, vp_fmt_file); }
   vp_fmt_n++;
}
extern "C" {
__attribute__((noinline)) void vp_fmt_open_buf(char *buf, size_t cap) { vp_fmt_buf = buf; vp_fmt_cap = cap; vp_fmt_file = 0; vp_fmt_n = 0; }
__attribute__((noinline)) void vp_fmt_open_file(FILE *f) { vp_fmt_buf = 0; vp_fmt_cap = 0; vp_fmt_file = f; vp_fmt_n = 0; }
__attribute__((noinline)) void vp_fmt_str(const char *s) { for (unsigned i = 0; s[i] != 0; i++) { vp_fmt_put(s[i]); } }
__attribute__((noinline)) void vp_fmt_strn(const char *s, unsigned prec, unsigned width)
{
   (void)width;
   for (unsigned i = 0; s[i] != 0 && (prec == ~0u || i < prec); i++) { vp_fmt_put(s[i]); }
}
__attribute__((noinline)) void vp_fmt_char(unsigned c) { vp_fmt_put((char)c); }
__attribute__((noinline)) void vp_fmt_int(uint64_t v, unsigned is_signed, unsigned width, unsigned zero, unsigned base)
{
   char     tmp[24];
   unsigned n   = 0;
   bool     neg = false;
   if (is_signed && (int64_t)v < 0) { neg = true; v = (uint64_t)(-(int64_t)v); }
   do
   {
      unsigned dg;
      if (base == 16) { dg = (unsigned)(v & 15); v >>= 4; }     /* no divider circuit for hex */
      else { dg = (unsigned)(v % 10); v /= 10; }
      tmp[n++] = (char)(dg < 10 ? '0' + dg : 'a' + dg - 10);
   } while (v != 0 && n < 22);
   unsigned len = n + (neg ? 1 : 0);
   if (!zero) { for (unsigned i = len; i < width; i++) { vp_fmt_put(' '); } }
   if (neg) { vp_fmt_put('-'); }
   if (zero) { for (unsigned i = len; i < width; i++) { vp_fmt_put('0'); } }
   while (n > 0) { vp_fmt_put(tmp[--n]); }
}
__attribute__((noinline)) int vp_fmt_close()
{
   if (vp_fmt_buf != 0 && vp_fmt_cap > 0) { vp_fmt_buf[vp_fmt_n < vp_fmt_cap ? vp_fmt_n : vp_fmt_cap - 1] = 0; }
   return (int)vp_fmt_n;
}
#ifdef VP_REAL_STL
int fprintf(FILE *f, const char *fmt, ...)
{
   char    b[512];
   va_list ap;
   va_start(ap, fmt);
   int n = vsnprintf(b, sizeof(b), fmt, ap);
   va_end(ap);
   for (int i = 0; i < n && i < (int)sizeof(b) - 1; i++) { fputc(b[i], f); }
   return n;
}
int printf(const char *fmt, ...) { (void)fmt; vp_diag++; return 0; }
#endif
}
#endif
