#!/usr/bin/env python3
"""Parser for the subset of LLVM-14 textual IR (typed pointers) that clang -O1
emits for uncrustify. Produces a Module of types, globals, declarations and
function bodies. Anything not understood raises IRError with the offending
text: the caller reports the obligation as INCONCLUSIVE, never as success."""
import re


class IRError(Exception):
    pass


TOK_RE = re.compile(r'''
    (?P<ws>\s+)
  | (?P<comment>;[^\n]*)
  | (?P<cstr>c"(?:[^"\\]|\\[0-9A-Fa-f]{2}|\\\\)*")
  | (?P<str>"(?:[^"\\]|\\.)*")
  | (?P<local>%(?:"(?:[^"\\]|\\.)*"|[-a-zA-Z$._0-9]+))
  | (?P<glob>@(?:"(?:[^"\\]|\\.)*"|[-a-zA-Z$._0-9]+))
  | (?P<meta>![-a-zA-Z$._0-9]*)
  | (?P<attrgrp>\#\d+)
  | (?P<comdat>\$(?:"(?:[^"\\]|\\.)*"|[-a-zA-Z$._0-9]+))
  | (?P<float>-?\d+\.\d*(?:[eE][-+]?\d+)?|0x[KLMHR]?[0-9A-Fa-f]+)
  | (?P<int>-?\d+)
  | (?P<dots>\.\.\.)
  | (?P<word>[a-zA-Z_][-a-zA-Z$._0-9]*)
  | (?P<punct><\{|\}>|[()\[\]{}<>,=*|:])
''', re.X)


def lex(s):
    out = []
    pos = 0
    n = len(s)
    while pos < n:
        m = TOK_RE.match(s, pos)
        if not m:
            raise IRError('lex error at: ' + s[pos:pos + 60])
        pos = m.end()
        k = m.lastgroup
        if k in ('ws', 'comment'):
            continue
        out.append((k, m.group(0)))
    return out


# ---------------------------------------------------------------- types
# ('int', bits) ('ptr', T) ('arr', n, T) ('vec', n, T) ('struct', (fields), packed)
# ('named', name) ('void',) ('fp', kind) ('func', ret, (params), vararg) ('opaque',) ('label',) ('metadata',)

class Toks:
    def __init__(self, toks):
        self.t = toks
        self.i = 0

    def peek(self, k=0):
        if self.i + k < len(self.t):
            return self.t[self.i + k]
        return ('eof', '')

    def next(self):
        t = self.peek()
        self.i += 1
        return t

    def accept(self, val):
        if self.peek()[1] == val:
            self.i += 1
            return True
        return False

    def expect(self, val):
        t = self.next()
        if t[1] != val:
            raise IRError('expected %r got %r in: %s' % (val, t[1], self.ctx()))
        return t

    def eof(self):
        return self.i >= len(self.t)

    def ctx(self):
        return ' '.join(x[1] for x in self.t[max(0, self.i - 8):self.i + 8])


PARAM_ATTRS = {'noundef', 'nonnull', 'zeroext', 'signext', 'nocapture', 'readonly', 'writeonly', 'noalias',
               'returned', 'immarg', 'inreg', 'readnone', 'nofree', 'nest', 'swiftself', 'swifterror',
               'noundef', 'inrange', 'nocallback'}
PARAM_ATTRS_ARG = {'align', 'dereferenceable', 'dereferenceable_or_null'}
PARAM_ATTRS_TY = {'byval', 'sret', 'byref', 'inalloca', 'preallocated', 'elementtype'}


def parse_type(tk):
    k, v = tk.next()
    if k == 'word':
        m = re.fullmatch(r'i(\d+)', v)
        if m:
            ty = ('int', int(m.group(1)))
        elif v == 'void':
            ty = ('void',)
        elif v in ('float', 'double', 'x86_fp80', 'half', 'fp128'):
            ty = ('fp', v)
        elif v == 'opaque':
            ty = ('opaque',)
        elif v == 'label':
            ty = ('label',)
        elif v == 'metadata':
            ty = ('metadata',)
        elif v == 'ptr':
            raise IRError('opaque pointers not supported')
        else:
            raise IRError('unknown type word %r in: %s' % (v, tk.ctx()))
    elif k == 'local':
        ty = ('named', v)
    elif v == '[':
        n = int(tk.next()[1])
        tk.expect('x')
        el = parse_type(tk)
        tk.expect(']')
        ty = ('arr', n, el)
    elif v == '<':
        n = int(tk.next()[1])
        tk.expect('x')
        el = parse_type(tk)
        tk.expect('>')
        ty = ('vec', n, el)
    elif v in ('{', '<{'):
        packed = v == '<{'
        close = '}>' if packed else '}'
        fields = []
        while tk.peek()[1] != close:
            fields.append(parse_type(tk))
            tk.accept(',')
        tk.expect(close)
        ty = ('struct', tuple(fields), packed)
    else:
        raise IRError('type? %r in: %s' % (v, tk.ctx()))
    while True:
        p = tk.peek()[1]
        if p == '*':
            tk.next()
            ty = ('ptr', ty)
        elif p == '(':
            tk.next()
            params = []
            vararg = False
            while tk.peek()[1] != ')':
                if tk.peek()[1] == '...':
                    tk.next()
                    vararg = True
                else:
                    params.append(parse_type(tk))
                    skip_param_attrs(tk)
                tk.accept(',')
            tk.expect(')')
            ty = ('func', ty, tuple(params), vararg)
        elif p == 'addrspace':
            raise IRError('addrspace not supported')
        else:
            break
    return ty


def skip_param_attrs(tk):
    """skips parameter attributes; returns dict with byval type if present"""
    info = {}
    while True:
        k, v = tk.peek()
        if k != 'word':
            break
        if v in PARAM_ATTRS:
            tk.next()
        elif v in PARAM_ATTRS_ARG:
            tk.next()
            if tk.accept('('):
                tk.next()
                tk.expect(')')
            else:
                tk.next()  # align N
        elif v in PARAM_ATTRS_TY:
            tk.next()
            tk.expect('(')
            t = parse_type(tk)
            tk.expect(')')
            info[v] = t
        else:
            break
    return info


# ---------------------------------------------------------------- values / constants
# value forms:
#   ('local', name) ('global', name) ('int', n) ('null',) ('undef',) ('zero',) ('fpconst', text)
#   ('cstr', bytes) ('agg', kind, [(ty, val)...])  kind in arr/struct/pstruct/vec
#   ('cexpr', op, ...)   constant expressions

CAST_OPS = {'bitcast', 'ptrtoint', 'inttoptr', 'trunc', 'zext', 'sext', 'addrspacecast',
            'fptosi', 'fptoui', 'sitofp', 'uitofp', 'fpext', 'fptrunc'}
BIN_OPS = {'add', 'sub', 'mul', 'udiv', 'sdiv', 'urem', 'srem', 'shl', 'lshr', 'ashr', 'and', 'or', 'xor',
           'fadd', 'fsub', 'fmul', 'fdiv', 'frem'}
BIN_FLAGS = {'nuw', 'nsw', 'exact', 'fast', 'nnan', 'ninf', 'nsz', 'arcp', 'contract', 'afn', 'reassoc'}


def decode_cstr(tok):
    s = tok[2:-1]
    out = bytearray()
    i = 0
    while i < len(s):
        if s[i] == '\\':
            if s[i + 1] == '\\':
                out.append(0x5c)
                i += 2
            else:
                out.append(int(s[i + 1:i + 3], 16))
                i += 3
        else:
            out.append(ord(s[i]))
            i += 1
    return bytes(out)


def parse_value(tk, ty):
    """parse a value of (already parsed) type ty"""
    k, v = tk.next()
    if k == 'local':
        return ('local', v)
    if k == 'glob':
        return ('global', v)
    if k == 'int':
        return ('int', int(v))
    if k == 'float':
        return ('fpconst', v)
    if k == 'cstr':
        return ('cstr', decode_cstr(v))
    if k == 'word':
        if v == 'null':
            return ('null',)
        if v in ('undef', 'poison'):
            return ('undef',)
        if v == 'zeroinitializer':
            return ('zero',)
        if v == 'true':
            return ('int', 1)
        if v == 'false':
            return ('int', 0)
        if v == 'getelementptr':
            tk.accept('inbounds')
            tk.expect('(')
            sty = parse_type(tk)
            tk.expect(',')
            pty = parse_type(tk)
            base = parse_value(tk, pty)
            idx = []
            while tk.accept(','):
                tk.accept('inrange')
                ity = parse_type(tk)
                idx.append((ity, parse_value(tk, ity)))
            tk.expect(')')
            return ('cexpr', 'gep', sty, pty, base, idx)
        if v in CAST_OPS:
            tk.expect('(')
            fty = parse_type(tk)
            val = parse_value(tk, fty)
            tk.expect('to')
            tty = parse_type(tk)
            tk.expect(')')
            return ('cexpr', 'cast', v, fty, val, tty)
        if v in BIN_OPS:
            while tk.peek()[1] in BIN_FLAGS:
                tk.next()
            tk.expect('(')
            t1 = parse_type(tk)
            a = parse_value(tk, t1)
            tk.expect(',')
            t2 = parse_type(tk)
            b = parse_value(tk, t2)
            tk.expect(')')
            return ('cexpr', 'bin', v, t1, a, b)
        if v == 'icmp':
            pred = tk.next()[1]
            tk.expect('(')
            t1 = parse_type(tk)
            a = parse_value(tk, t1)
            tk.expect(',')
            t2 = parse_type(tk)
            b = parse_value(tk, t2)
            tk.expect(')')
            return ('cexpr', 'icmp', pred, t1, a, b)
        if v == 'select':
            tk.expect('(')
            ops = []
            while True:
                t1 = parse_type(tk)
                ops.append((t1, parse_value(tk, t1)))
                if not tk.accept(','):
                    break
            tk.expect(')')
            return ('cexpr', 'select', ops)
        if v == 'blockaddress' or v == 'dso_local_equivalent' or v == 'no_cfi':
            raise IRError('unsupported constant ' + v)
        raise IRError('value word? %r in: %s' % (v, tk.ctx()))
    if v == '[':
        elems = []
        while tk.peek()[1] != ']':
            t1 = parse_type(tk)
            elems.append((t1, parse_value(tk, t1)))
            tk.accept(',')
        tk.expect(']')
        return ('agg', 'arr', elems)
    if v in ('{', '<{'):
        close = '}>' if v == '<{' else '}'
        elems = []
        while tk.peek()[1] != close:
            t1 = parse_type(tk)
            elems.append((t1, parse_value(tk, t1)))
            tk.accept(',')
        tk.expect(close)
        return ('agg', 'struct', elems)
    if v == '<':
        elems = []
        while tk.peek()[1] != '>':
            t1 = parse_type(tk)
            elems.append((t1, parse_value(tk, t1)))
            tk.accept(',')
        tk.expect('>')
        return ('agg', 'vec', elems)
    raise IRError('value? %r in: %s' % (v, tk.ctx()))


def parse_typed_value(tk):
    ty = parse_type(tk)
    return ty, parse_value(tk, ty)


# ---------------------------------------------------------------- module
LINKAGE = {'private', 'internal', 'available_externally', 'linkonce', 'weak', 'common', 'appending',
           'extern_weak', 'linkonce_odr', 'weak_odr', 'external', 'dso_local', 'dso_preemptable', 'hidden',
           'protected', 'default', 'unnamed_addr', 'local_unnamed_addr', 'thread_local', 'externally_initialized',
           'dllimport', 'dllexport'}
CCONV = {'fastcc', 'ccc', 'coldcc', 'tailcc', 'cc'}
FN_PREFIX = {'tail', 'musttail', 'notail'}


class Global:
    def __init__(self):
        self.name = None
        self.ty = None
        self.init = None
        self.const = False
        self.external = False
        self.linkage = set()


class Func:
    def __init__(self):
        self.name = None
        self.ret = None
        self.params = []  # (ty, name, attrinfo)
        self.vararg = False
        self.blocks = []  # (label, [inst...])
        self.defined = False


class Inst:
    __slots__ = ('res', 'op', 'a', 'text')

    def __init__(self, res, op, a, text):
        self.res = res
        self.op = op
        self.a = a
        self.text = text


class Module:
    def __init__(self):
        self.types = {}
        self.type_order = []
        self.globals = {}
        self.funcs = {}
        self.aliases = {}
        self.ctors = []


def skip_until_words(tk, stop):
    while not tk.eof() and tk.peek()[1] not in stop:
        tk.next()


def parse_fn_header(tk, f):
    # after 'define'/'declare': linkage..., ret attrs, ret type, @name ( params ) attrs
    while True:
        k, v = tk.peek()
        if k == 'word' and (v in LINKAGE or v in CCONV):
            tk.next()
            if v == 'cc':
                tk.next()
            continue
        break
    skip_param_attrs(tk)
    f.ret = parse_type(tk)
    k, v = tk.next()
    if k != 'glob':
        raise IRError('function name expected: ' + tk.ctx())
    f.name = v
    tk.expect('(')
    while tk.peek()[1] != ')':
        if tk.peek()[1] == '...':
            tk.next()
            f.vararg = True
        else:
            pty = parse_type(tk)
            info = skip_param_attrs(tk)
            pname = None
            if tk.peek()[0] == 'local':
                pname = tk.next()[1]
            f.params.append((pty, pname, info))
        tk.accept(',')
    tk.expect(')')


def parse_module(text):
    mod = Module()
    lines = text.split('\n')
    i = 0
    n = len(lines)
    # pass 1: type names (so forward references work)
    for ln in lines:
        m = re.match(r'^(%(?:"(?:[^"\\]|\\.)*"|[-a-zA-Z$._0-9]+)) = type (.*)$', ln)
        if m:
            mod.types[m.group(1)] = None
            mod.type_order.append(m.group(1))
    while i < n:
        ln = lines[i]
        i += 1
        s = ln.strip()
        if not s or s.startswith(';'):
            continue
        if s.startswith(('source_filename', 'target ', 'attributes ', '!', '$', 'module asm')):
            continue
        if s.startswith('%') and ' = type ' in s:
            tk = Toks(lex(s))
            name = tk.next()[1]
            tk.expect('=')
            tk.expect('type')
            mod.types[name] = parse_type(tk)
            continue
        if s.startswith('@'):
            tk = Toks(lex(s))
            name = tk.next()[1]
            tk.expect('=')
            g = Global()
            g.name = name
            is_alias = False
            while True:
                k, v = tk.peek()
                if k == 'word' and v in LINKAGE:
                    g.linkage.add(v)
                    tk.next()
                    if v == 'thread_local' and tk.accept('('):
                        tk.next()
                        tk.expect(')')
                    continue
                break
            k, v = tk.next()
            if v == 'alias':
                aty = parse_type(tk)
                tk.expect(',')
                t2, val = parse_typed_value(tk)
                mod.aliases[name] = (aty, val)
                continue
            if v == 'ifunc':
                raise IRError('ifunc unsupported')
            if v not in ('global', 'constant'):
                raise IRError('global? ' + s[:200])
            g.const = v == 'constant'
            g.ty = parse_type(tk)
            if 'external' in g.linkage or 'extern_weak' in g.linkage:
                g.external = True
            else:
                if tk.peek()[1] in (',', '') or tk.eof():
                    g.external = True
                else:
                    g.init = parse_value(tk, g.ty)
            mod.globals[name] = g
            if name == '@llvm.global_ctors' and g.init and g.init[0] == 'agg':
                ents = []
                for (ety, ev) in g.init[2]:
                    prio = ev[2][0][1][1]
                    fn = ev[2][1][1]
                    if fn[0] == 'global':
                        ents.append((prio, fn[1]))
                ents.sort(key=lambda x: x[0])
                mod.ctors = [e[1] for e in ents]
            continue
        if s.startswith('declare'):
            tk = Toks(lex(s))
            tk.next()
            f = Func()
            parse_fn_header(tk, f)
            mod.funcs[f.name] = f
            continue
        if s.startswith('define'):
            tk = Toks(lex(s))
            tk.next()
            f = Func()
            parse_fn_header(tk, f)
            f.defined = True
            # body
            cur_label = None
            cur = []
            first = True
            while i < n:
                bl = lines[i]
                i += 1
                bs = bl.strip()
                if bs == '}':
                    break
                if not bs or bs.startswith(';'):
                    continue
                m = re.match(r'^("(?:[^"\\]|\\.)*"|[-a-zA-Z$._0-9]+):', bl)
                if m:
                    if cur_label is not None or cur:
                        f.blocks.append((cur_label, cur))
                    cur_label = m.group(1)
                    cur = []
                    continue
                if first and cur_label is None:
                    # entry label is implicit: number = count of unnamed params
                    cur_label = None
                first = False
                # multi-line switch
                if re.match(r'^\s*switch ', bl) and not bs.endswith(']'):
                    while i < n:
                        nx = lines[i]
                        i += 1
                        bs += ' ' + nx.strip()
                        if nx.strip().startswith(']'):
                            break
                cur.append(bs)
            f.blocks.append((cur_label, cur))
            mod.funcs[f.name] = f
            continue
        raise IRError('unrecognised top-level line: ' + s[:200])
    return mod


# ---------------------------------------------------------------- instructions
def strip_meta(tk_list):
    """drop trailing ', !tbaa !5' style metadata and '#N' attribute groups"""
    out = []
    j = 0
    L = len(tk_list)
    while j < L:
        k, v = tk_list[j]
        if k == 'meta':
            # remove preceding comma if present
            if out and out[-1][1] == ',':
                out.pop()
            j += 1
            # a metadata reference value may follow (e.g. !tbaa !5)
            while j < L and tk_list[j][0] == 'meta':
                j += 1
            continue
        if k == 'attrgrp':
            j += 1
            continue
        out.append((k, v))
        j += 1
    return out


def parse_inst(text):
    toks = strip_meta(lex(text))
    tk = Toks(toks)
    res = None
    if tk.peek()[0] == 'local' and tk.peek(1)[1] == '=':
        res = tk.next()[1]
        tk.next()
    while tk.peek()[1] in FN_PREFIX:
        tk.next()
    k, op = tk.next()
    a = {}
    if op in BIN_OPS:
        while tk.peek()[1] in BIN_FLAGS:
            tk.next()
        ty = parse_type(tk)
        x = parse_value(tk, ty)
        tk.expect(',')
        y = parse_value(tk, ty)
        a = dict(ty=ty, x=x, y=y)
    elif op == 'fneg':
        while tk.peek()[1] in BIN_FLAGS:
            tk.next()
        ty = parse_type(tk)
        a = dict(ty=ty, x=parse_value(tk, ty))
    elif op in ('icmp', 'fcmp'):
        while tk.peek()[1] in BIN_FLAGS:
            tk.next()
        pred = tk.next()[1]
        ty = parse_type(tk)
        x = parse_value(tk, ty)
        tk.expect(',')
        y = parse_value(tk, ty)
        a = dict(pred=pred, ty=ty, x=x, y=y)
    elif op in CAST_OPS:
        fty = parse_type(tk)
        x = parse_value(tk, fty)
        tk.expect('to')
        tty = parse_type(tk)
        a = dict(cast=op, fty=fty, x=x, tty=tty)
        op = 'cast'
    elif op == 'select':
        while tk.peek()[1] in BIN_FLAGS:
            tk.next()
        cty, c = parse_typed_value(tk)
        tk.expect(',')
        ty, x = parse_typed_value(tk)
        tk.expect(',')
        ty2, y = parse_typed_value(tk)
        a = dict(cty=cty, c=c, ty=ty, x=x, y=y)
    elif op == 'freeze':
        ty, x = parse_typed_value(tk)
        a = dict(ty=ty, x=x)
    elif op == 'load':
        tk.accept('volatile')
        if tk.peek()[1] == 'atomic':
            tk.next()
            tk.accept('volatile')
        ty = parse_type(tk)
        tk.expect(',')
        pty, p = parse_typed_value(tk)
        a = dict(ty=ty, pty=pty, p=p)
    elif op == 'store':
        tk.accept('volatile')
        if tk.peek()[1] == 'atomic':
            tk.next()
            tk.accept('volatile')
        ty, x = parse_typed_value(tk)
        tk.expect(',')
        pty, p = parse_typed_value(tk)
        a = dict(ty=ty, x=x, pty=pty, p=p)
    elif op == 'atomicrmw':
        # single-threaded program: a sequential read-modify-write
        tk.accept('volatile')
        aop = tk.next()[1]
        pty, p = parse_typed_value(tk)
        tk.expect(',')
        ty, x = parse_typed_value(tk)
        a = dict(aop=aop, pty=pty, p=p, ty=ty, x=x)
    elif op == 'fence':
        a = dict()
    elif op == 'getelementptr':
        tk.accept('inbounds')
        sty = parse_type(tk)
        tk.expect(',')
        pty, p = parse_typed_value(tk)
        idx = []
        while tk.accept(','):
            if tk.peek()[0] != 'word' and tk.peek()[0] != 'punct' and tk.peek()[0] != 'local':
                break
            if tk.peek()[1] == 'align':
                break
            tk.accept('inrange')
            idx.append(parse_typed_value(tk))
        a = dict(sty=sty, pty=pty, p=p, idx=idx)
    elif op == 'alloca':
        tk.accept('inalloca')
        ty = parse_type(tk)
        cnt = None
        if tk.accept(','):
            if tk.peek()[1] != 'align' and tk.peek()[1] != 'addrspace':
                cty, cnt = parse_typed_value(tk)
        a = dict(ty=ty, cnt=cnt)
    elif op in ('call', 'invoke'):
        while tk.peek()[1] in BIN_FLAGS or tk.peek()[1] in CCONV:
            v = tk.next()[1]
            if v == 'cc':
                tk.next()
        skip_param_attrs(tk)
        rty = parse_type(tk)
        # rty may be a full function type for varargs: 'i32 (i8*, ...)'
        fty = None
        if rty[0] == 'func':
            fty = rty
            rty = fty[1]
        elif rty[0] == 'ptr' and rty[1][0] == 'func':
            fty = rty[1]
            rty = fty[1]
        k2, callee = tk.next()
        if k2 == 'glob':
            cal = ('global', callee)
        elif k2 == 'local':
            cal = ('local', callee)
        elif k2 == 'word' and callee == 'bitcast':
            tk.expect('(')
            cfty = parse_type(tk)
            cv = parse_value(tk, cfty)
            tk.expect('to')
            ctty = parse_type(tk)
            tk.expect(')')
            cal = ('cexpr', 'cast', 'bitcast', cfty, cv, ctty)
        elif k2 == 'word' and callee == 'asm':
            raise IRError('inline asm unsupported: ' + text[:120])
        else:
            raise IRError('callee? ' + text[:200])
        tk.expect('(')
        args = []
        while tk.peek()[1] != ')':
            aty = parse_type(tk)
            info = skip_param_attrs(tk)
            if aty[0] == 'metadata':
                # metadata argument (debug intrinsics): skip to ',' or ')'
                depth = 0
                while True:
                    p = tk.peek()[1]
                    if depth == 0 and p in (',', ')'):
                        break
                    if p in ('(', '{', '['):
                        depth += 1
                    if p in (')', '}', ']'):
                        depth -= 1
                    tk.next()
                args.append((aty, ('undef',), info))
            else:
                args.append((aty, parse_value(tk, aty), info))
            tk.accept(',')
        tk.expect(')')
        a = dict(rty=rty, fty=fty, callee=cal, args=args)
        if op == 'invoke':
            skip_until_words(tk, {'to'})
            tk.expect('to')
            tk.expect('label')
            a['normal'] = tk.next()[1]
            tk.expect('unwind')
            tk.expect('label')
            a['unwind'] = tk.next()[1]
    elif op == 'ret':
        ty = parse_type(tk)
        if ty[0] == 'void':
            a = dict(ty=ty, x=None)
        else:
            a = dict(ty=ty, x=parse_value(tk, ty))
    elif op == 'br':
        if tk.peek()[1] == 'label':
            tk.next()
            a = dict(cond=None, t=tk.next()[1])
        else:
            cty, c = parse_typed_value(tk)
            tk.expect(',')
            tk.expect('label')
            t = tk.next()[1]
            tk.expect(',')
            tk.expect('label')
            f = tk.next()[1]
            a = dict(cond=c, t=t, f=f)
    elif op == 'switch':
        ty, x = parse_typed_value(tk)
        tk.expect(',')
        tk.expect('label')
        d = tk.next()[1]
        tk.expect('[')
        cases = []
        while tk.peek()[1] != ']':
            cty, cv = parse_typed_value(tk)
            tk.expect(',')
            tk.expect('label')
            cases.append((cv, tk.next()[1]))
        a = dict(ty=ty, x=x, default=d, cases=cases)
    elif op == 'phi':
        while tk.peek()[1] in BIN_FLAGS:
            tk.next()
        ty = parse_type(tk)
        inc = []
        while True:
            tk.expect('[')
            v = parse_value(tk, ty)
            tk.expect(',')
            lbl = tk.next()[1]
            tk.expect(']')
            inc.append((v, lbl))
            if not tk.accept(','):
                break
        a = dict(ty=ty, inc=inc)
    elif op == 'unreachable':
        a = {}
    elif op == 'extractvalue':
        ty, x = parse_typed_value(tk)
        idx = []
        while tk.accept(','):
            idx.append(int(tk.next()[1]))
        a = dict(ty=ty, x=x, idx=idx)
    elif op == 'insertvalue':
        ty, x = parse_typed_value(tk)
        tk.expect(',')
        ety, e = parse_typed_value(tk)
        idx = []
        while tk.accept(','):
            idx.append(int(tk.next()[1]))
        a = dict(ty=ty, x=x, ety=ety, e=e, idx=idx)
    elif op in ('resume', 'landingpad'):
        a = {}
    else:
        raise IRError('unsupported instruction: ' + text[:200])
    return Inst(res, op, a, text)
