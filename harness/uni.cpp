/* UNI-* obligations (C09, C06): the real codec of src/unicode.cpp, all inputs symbolic.
 * Real functions encoded: decode_unicode, decode_bom, decode_utf8, decode_utf16,
 * get_word, is_ascii, decode_bytes, encode_utf8, write_char, write_utf8,
 * write_utf16, write_byte, write_bom.  */
#include "/repo/src/unicode.cpp"
VP_ZERO_GLOBAL(cp_data_t, cpd);   /* zero-initialised by the engine; the codec reads only enc/bom/fout/bout */
extern "C" int fputc(int c, FILE *f) { (void)f; vp_unmodelled("fputc (cpd.fout is null in this harness)"); return c; }

#ifndef N
#define N 2
#endif

/* ---- reference encoders (RFC 3629 / RFC 2781), independent of the code under test */
static int ref_utf8(unsigned cp, unsigned char *o)
{
   if (cp < 0x80) { o[0] = (unsigned char)cp; return 1; }
   if (cp < 0x800) { o[0] = (unsigned char)(0xC0 | (cp >> 6)); o[1] = (unsigned char)(0x80 | (cp & 0x3F)); return 2; }
   if (cp < 0x10000)
   {
      o[0] = (unsigned char)(0xE0 | (cp >> 12)); o[1] = (unsigned char)(0x80 | ((cp >> 6) & 0x3F));
      o[2] = (unsigned char)(0x80 | (cp & 0x3F)); return 3;
   }
   o[0] = (unsigned char)(0xF0 | (cp >> 18)); o[1] = (unsigned char)(0x80 | ((cp >> 12) & 0x3F));
   o[2] = (unsigned char)(0x80 | ((cp >> 6) & 0x3F)); o[3] = (unsigned char)(0x80 | (cp & 0x3F)); return 4;
}
static int ref_utf16(unsigned cp, bool be, unsigned char *o)
{
   unsigned w[2]; int n = 1;
   if (cp < 0x10000) { w[0] = cp; }
   else { unsigned v = cp - 0x10000; w[0] = 0xD800 + (v >> 10); w[1] = 0xDC00 + (v & 0x3FF); n = 2; }
   for (int i = 0; i < n; i++)
   {
      if (be) { o[2 * i] = (unsigned char)(w[i] >> 8); o[2 * i + 1] = (unsigned char)(w[i] & 0xFF); }
      else { o[2 * i] = (unsigned char)(w[i] & 0xFF); o[2 * i + 1] = (unsigned char)(w[i] >> 8); }
   }
   return 2 * n;
}
static bool vp_is_scalar(unsigned cp) { return cp < 0x110000 && !(cp >= 0xD800 && cp < 0xE000); }

/* UNI-RT: every byte string of length N is either refused, contains an embedded NUL
 * (refused by the caller's scan), or is written back byte-identically (BOM-less
 * UTF-16 gets its BOM: documented). "Never silently altered." */
extern "C" void vp_uni_rt()
{
   std::vector<UINT8> in;
   for (int i = 0; i < N; i++) { in.push_back(vp_u8()); }
   std::deque<int>   data;
   std::deque<UINT8> out;
   char_encoding_e   enc = char_encoding_e::e_ASCII;
   bool              bom = false;
   cpd.bout = &out;
   cpd.fout = nullptr;
   bool ok = decode_unicode(in, data, enc, bom);
   if (!ok) { vp_witness("opt:refused"); return; }
   bool utf16 = (enc == char_encoding_e::e_UTF16_LE || enc == char_encoding_e::e_UTF16_BE);
   /* caller's policy under default options (uncrustify_file head; decided for all
    * option values by UNI-POLICY): UTF-16 always gets a BOM, otherwise as read */
   cpd.enc = enc;
   cpd.bom = utf16 ? true : bom;
   if (cpd.bom) { write_bom(); }
   bool has0 = false;
   for (size_t i = 0; i < data.size(); i++)
   {
      if (data[i] == 0 && i + 1 < data.size()) { has0 = true; }
      write_char(data[i]);
   }
   if (has0) { vp_witness("opt:embedded-nul"); return; }
   size_t skip = (utf16 && !bom) ? 2 : 0;
   bool   same = (out.size() == in.size() + skip);
   for (size_t i = 0; same && i < in.size(); i++) { if (out[i + skip] != in[i]) { same = false; } }
   if (skip && same)
   {
      same = (enc == char_encoding_e::e_UTF16_BE) ? (out[0] == 0xFE && out[1] == 0xFF) : (out[0] == 0xFF && out[1] == 0xFE);
   }
   vp_assert(same, "C09:bytes written back differ from bytes read (silent alteration)");
   vp_witness("end");
}

/* UNI-ENC8: encode_utf8 / decode_utf8 for every code point the decoder can produce */
extern "C" void vp_uni_enc8()
{
   unsigned cp = (unsigned)vp_range(0, 0x7FFFFFFFu);
   /* U+FEFF as the first character of a UTF-8 text *is* the byte order mark
    * (EF BB BF) and is skipped by design; U+FEFF elsewhere: UNI-RT / UNI-COMM */
   vp_assume(cp != 0xFEFF);
   std::vector<UINT8> enc;
   encode_utf8((int)cp, enc);
   if (vp_is_scalar(cp))
   {
      unsigned char r[4];
      int           n  = ref_utf8(cp, r);
      bool          eq = ((int)enc.size() == n);
      for (int i = 0; eq && i < n; i++) { if (enc[i] != r[i]) { eq = false; } }
      vp_assert(eq, "C09:encode_utf8 differs from RFC 3629 for a scalar value");
   }
   std::deque<int> data;
   bool            ok = decode_utf8(enc, data);
   vp_assert(ok && data.size() == 1 && data[0] == (int)cp, "C09:decode_utf8(encode_utf8(cp)) != [cp]");
   vp_witness("end");
}

/* UNI-ENC16: write_utf16 vs reference; decode_utf16 inverts it; non-scalars write nothing */
extern "C" void vp_uni_enc16()
{
   unsigned cp = (unsigned)vp_range(0, 0x7FFFFFFFu);
   bool     be = vp_bool();
   std::deque<UINT8> out;
   cpd.bout = &out;
   cpd.fout = nullptr;
   cpd.enc  = be ? char_encoding_e::e_UTF16_BE : char_encoding_e::e_UTF16_LE;
   write_bom();
   write_char((int)cp);
   unsigned char r[4];
   if (vp_is_scalar(cp))
   {
      int  n  = ref_utf16(cp, be, r);
      bool eq = ((int)out.size() == n + 2);
      for (int i = 0; eq && i < n; i++) { if (out[i + 2] != r[i]) { eq = false; } }
      vp_assert(eq, "C09:write_utf16 differs from RFC 2781 for a scalar value");
      std::vector<UINT8> in;
      for (size_t i = 0; i < out.size(); i++) { in.push_back(out[i]); }
      std::deque<int> data;
      char_encoding_e e2 = char_encoding_e::e_ASCII;
      bool            b2 = false;
      bool            ok = decode_unicode(in, data, e2, b2);
      vp_assert(ok && b2 && e2 == cpd.enc && data.size() == 1 && data[0] == (int)cp, "C09:decode(write_utf16(cp)) != [cp]");
      vp_witness("scalar");
   }
   else
   {
      vp_assert(out.size() == 2, "C09:write_utf16 wrote bytes for a non-scalar value");
      vp_witness("nonscalar");
   }
}

/* UNI-COMM: decoding commutes with transcoding for K scalar values (not NUL) */
#ifndef K
#define K 2
#endif
static void put(std::vector<UINT8> &v, const unsigned char *b, int n) { for (int i = 0; i < n; i++) { v.push_back(b[i]); } }
extern "C" void vp_uni_comm()
{
   unsigned cps[K];
   bool     nonascii = false;
   for (int i = 0; i < K; i++)
   {
      cps[i] = (unsigned)vp_range(1, 0x10FFFF);
      vp_assume(vp_is_scalar(cps[i]));
      if (cps[i] >= 0x80) { nonascii = true; }
   }
   /* a text whose first character is U+FEFF is by definition a text with a BOM */
   vp_assume(cps[0] != 0xFEFF);
   /* which source encoding: 0 utf8, 1 utf8+bom, 2 utf16le+bom, 3 utf16be+bom */
#ifdef SRCENC
   unsigned srcenc = SRCENC;
#else
   unsigned srcenc = (unsigned)vp_range(0, 3);
#endif
   unsigned dstenc = (unsigned)vp_range(0, 3);
   static const unsigned char bom8[3] = { 0xEF, 0xBB, 0xBF };
   std::vector<UINT8> in;
   unsigned char      t[4];
   if (srcenc == 1) { put(in, bom8, 3); }
   if (srcenc == 2) { t[0] = 0xFF; t[1] = 0xFE; put(in, t, 2); }
   if (srcenc == 3) { t[0] = 0xFE; t[1] = 0xFF; put(in, t, 2); }
   for (int i = 0; i < K; i++)
   {
      int n = (srcenc < 2) ? ref_utf8(cps[i], t) : ref_utf16(cps[i], srcenc == 3, t);
      put(in, t, n);
   }
   std::deque<int> data;
   char_encoding_e enc = char_encoding_e::e_ASCII;
   bool            bom = false;
   bool            ok  = decode_unicode(in, data, enc, bom);
   vp_assert(ok, "C09:valid encoded text refused");
   bool same = ok && (data.size() == K);
   for (int i = 0; same && i < K; i++) { if (data[i] != (int)cps[i]) { same = false; } }
   vp_assert(same, "C09:decoded code points depend on the encoding of the input");
   char_encoding_e want = (srcenc == 2) ? char_encoding_e::e_UTF16_LE : (srcenc == 3) ? char_encoding_e::e_UTF16_BE
                          : (srcenc == 1 || nonascii) ? char_encoding_e::e_UTF8 : char_encoding_e::e_ASCII;
   vp_assert(enc == want && bom == (srcenc != 0), "C09:detected encoding/BOM is not the one the file was written in");
   /* write the decoded text under the destination encoding: reference transcoding */
   std::deque<UINT8> out;
   cpd.bout = &out;
   cpd.fout = nullptr;
   cpd.enc  = (dstenc < 2) ? char_encoding_e::e_UTF8 : (dstenc == 2) ? char_encoding_e::e_UTF16_LE : char_encoding_e::e_UTF16_BE;
   cpd.bom  = (dstenc != 0);
   if (cpd.bom) { write_bom(); }
   for (size_t i = 0; i < data.size(); i++) { write_char(data[i]); }
   std::vector<UINT8> ref;
   if (dstenc == 1) { put(ref, bom8, 3); }
   if (dstenc == 2) { t[0] = 0xFF; t[1] = 0xFE; put(ref, t, 2); }
   if (dstenc == 3) { t[0] = 0xFE; t[1] = 0xFF; put(ref, t, 2); }
   for (int i = 0; i < K; i++)
   {
      int n = (dstenc < 2) ? ref_utf8(cps[i], t) : ref_utf16(cps[i], dstenc == 3, t);
      put(ref, t, n);
   }
   bool eq = (out.size() == ref.size());
   for (size_t i = 0; eq && i < ref.size(); i++) { if (out[i] != ref[i]) { eq = false; } }
   vp_assert(eq, "C09:bytes written differ from the reference transcoding");
   vp_witness("end");
}
