#!/usr/bin/env python3
"""Prints the markdown table of DESIGN.md section 9.6 from seeded/results.json."""
import json, os
V = os.path.dirname(os.path.dirname(os.path.abspath(__file__)))
res = json.load(open(os.path.join(V, 'seeded', 'results.json')))
print('| seeded change | property | needs to manifest | detected by | ')
print('|---|---|---|---|')
for name in sorted(res):
    meta = json.load(open(os.path.join(V, 'seeded', name, 'meta.json')))
    r = res[name]
    det = []
    for p, c in r['checks'].items():
        if c['detected']:
            obl = sorted(set(l.split('obligation ')[1].split(':')[0].split('-')[0] + '-' + l.split('obligation ')[1].split(':')[0].split('-')[1] for l in c['lines'] if l.strip().startswith('obligation')))
            det.append('%s (%s)' % (p, ', '.join(obl)))
    print('| %s | %s | %s | %s |' % (name, r['property'], meta['needs_to_manifest'], '; '.join(det) if det else '**missed** (' + ', '.join('%s exit %d' % (p, c['exit']) for p, c in r['checks'].items()) + ')'))
