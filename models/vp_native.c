/* Native runtime shared by (a) the gcc build of the generated C and (b) the g++
 * build of the real uncrustify functions: nondeterministic values come from the
 * vector file named by VP_VECTOR (little-endian u64 each; 0 when exhausted),
 * events go to stdout with write(2) (stdio may be modelled by the harness). */
#include <stdint.h>
#include <stdlib.h>
#include <string.h>
#include <unistd.h>
#include <fcntl.h>
#include <sys/syscall.h>
/* raw system calls: harnesses may override open/read/close/write with their file-system model */
#define RAW_OPEN(f)      ((int)syscall(SYS_openat, AT_FDCWD, (f), O_RDONLY))
#define RAW_READ(d,b,n)  ((long)syscall(SYS_read, (d), (b), (n)))
#define RAW_CLOSE(d)     ((void)syscall(SYS_close, (d)))
#define RAW_WRITE(b,n)   ((long)syscall(SYS_write, 1, (b), (n)))
static uint64_t vec[4096];
static unsigned vec_n, vec_i;
static char     obuf[1 << 16];
static unsigned olen;
static void flush_out(void) { unsigned o = 0; while (o < olen) { long r = RAW_WRITE(obuf + o, olen - o); if (r <= 0) break; o += (unsigned)r; } olen = 0; }
static void put(const char *s) { unsigned n = (unsigned)strlen(s); if (olen + n >= sizeof(obuf)) flush_out(); if (n < sizeof(obuf)) { memcpy(obuf + olen, s, n); olen += n; } }
static void putu(uint64_t v) { char b[24]; int i = 23; b[i] = 0; do { b[--i] = (char)('0' + v % 10); v /= 10; } while (v); put(b + i); }
void vp_rt_init(void)
{
   const char *f = getenv("VP_VECTOR");
   vec_n = 0; vec_i = 0;
   if (f) { int fd = RAW_OPEN(f); if (fd >= 0) { long r = RAW_READ(fd, vec, sizeof(vec)); if (r > 0) vec_n = (unsigned)(r / 8); RAW_CLOSE(fd); } }
}
void vp_rt_fini(void) { put("END\n"); flush_out(); }
void vp_native_exit(void) { flush_out(); syscall(SYS_exit_group, 0); for (;;) {} }
uint64_t vp_nondet(void) { return vec_i < vec_n ? vec[vec_i++] : (vec_i++, 0); }
uint64_t vp_range(uint64_t lo, uint64_t hi)
{
   uint64_t v = vp_nondet();
   if (v >= lo && v <= hi) { return v; }
   if (hi < lo) { vp_native_exit(); }
   if (hi - lo == UINT64_MAX) { return v; }
   return lo + v % (hi - lo + 1);
}
void vp_event(const char *kind, const char *msg, uint64_t v) { put(kind); put(" "); put(msg); put(" "); putu(v); put("\n"); }
/* the primitives as seen by the real C++ build */
void vp_assume(int c) { if (!c) { vp_event("ASSUME-FALSE", "", 0); vp_native_exit(); } }
void vp_assert(int c, const char *id) { vp_event(c ? "A-OK" : "A-FAIL", id, 0); }
void vp_witness(const char *id) { vp_event("W", id, 0); }
void vp_observe(const char *tag, uint64_t v) { vp_event("O", tag, v); }
void vp_capacity(const char *w) { vp_event("C", w, 0); vp_native_exit(); }
void vp_abort(const char *w) { vp_event("T", w, 0); vp_native_exit(); }
void vp_unmodelled(const char *w) { vp_event("X", w, 0); vp_native_exit(); }
void vp_stop(void) { vp_event("STOP", "", 0); vp_native_exit(); }
