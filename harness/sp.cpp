/* SP-* obligations: spacing decisions of src/space.cpp.
 * SP-ATTR (C19): the whole real do_space() (3 400 source lines, ~360 rule sites) on a 4-chunk
 * neighbourhood [p, first, second, n]: the value returned is the configured value of the very option
 * whose name the site logs (attribution through log_rule), for all kinds/parents/flags/levels of the
 * four chunks and all values of every option the closure reads.
 * Environment: log_rule2()/log_rule4() record the call site (source line) instead of printing. */
#define private public
#define protected public
#include "patched/space.cpp"
#undef private
#undef protected
#include "vp_opts.h"
VP_ZERO_GLOBAL(cp_data_t, cpd);

static size_t vp_last_rule_line;
static unsigned vp_rule_calls;
void log_rule2(const char *func, size_t line, const char *rule, Chunk *first, Chunk *second)
{
   (void)func; (void)rule; (void)first; (void)second;
   vp_last_rule_line = line;
   vp_rule_calls++;
}
void log_rule4(const char *rule, Chunk *first) { (void)rule; (void)first; }

#ifndef TLEN
#define TLEN 1
#endif
static Chunk *vp_mk(int i)
{
   Chunk c;
   c.SetType((E_Token)vp_range(0, CT_TOKEN_COUNT_ - 1));
   c.SetParentType((E_Token)vp_range(0, CT_TOKEN_COUNT_ - 1));
   c.SetOrigLine(1);
   c.SetOrigCol(1 + 4 * i);
   c.SetOrigColEnd(2 + 4 * i);
   c.SetOrigPrevSp((size_t)vp_range(0, 3));
   c.SetPpLevel(0);
   size_t lvl = (size_t)vp_range(0, 3);
   c.SetLevel(lvl);
   c.SetBraceLevel((size_t)vp_range(0, 3));
   c.SetNlCount((size_t)vp_range(0, 2));
   c.SetAfterTab(vp_bool());
   uint64_t f = vp_nondet();
   c.m_flags.m_i = (PcfFlags::int_t)f;            /* every flag bit symbolic */
   for (int k = 0; k < TLEN; k++) { c.Str().append((int)vp_range(1, 0x7e)); }
   return c.CopyAndAddBefore(Chunk::NullChunkPtr);
}
extern "C" void vp_sp_attr()
{
   vp_havoc_options();
   cpd.lang_flags = (size_t)vp_range(1, 0x1ff);
   cpd.in_preproc = vp_bool() ? CT_PREPROC : CT_NONE;
   Chunk *p      = vp_mk(0);
   Chunk *first  = vp_mk(1);
   Chunk *second = vp_mk(2);
   Chunk *n      = vp_mk(3);
   (void)p; (void)n;
   int      min_sp = 0;
   iarf_e   av     = do_space(first, second, min_sp);
   unsigned got    = (unsigned)av;
   unsigned want   = 0;
   bool     known  = false;
   vp_assert(got <= 3, "C19:do_space returned something that is not ignore/add/remove/force");
   vp_observe("rule-line", vp_last_rule_line);
   vp_observe("returned", got);
   /* one assertion per rule site (so that one solver run reports every site that mis-attributes).
    * PROT = the site is on the protection list of the property statement: where the two tokens written
    * without a space would lex differently, the configured value may be strengthened by Add (Remove ->
    * Force, Ignore -> Add) or a Remove may be dropped to Ignore (no '<:' digraph is created). */
   switch (vp_last_rule_line)
   {
#define VP_RULE(line, name, prot) case line: known = true; want = (unsigned)options::name(); \
      vp_assert(got == want || ((prot) && (got == (want | (unsigned)IARF_ADD) || (want == (unsigned)IARF_REMOVE && got == (unsigned)IARF_IGNORE))), \
                "C19:site space.cpp:" #line " reports " #name " but applies another value"); break;
#include "vp_sp_rules_gen.h"
   default: break;
   }
   vp_observe("configured", want);
   if (known) { vp_witness("opt:attributed"); }
   vp_witness("end");
}
