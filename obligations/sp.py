"""SP-*: spacing decisions (src/space.cpp do_space)."""
import re
TUS = ['chunk.cpp', 'unc_text.cpp', 'unicode.cpp', 'unc_ctype.cpp', 'punctuators.cpp', 'token_is_within_trailing_return.cpp', 'options_for_QT.cpp',
       'language_tools.cpp', '$BUILD/src/options.cpp', '$HARNESS/chartable.cpp']
NOLOGTEXT = ['_Z11encode_utf8iRSt9vp_vectorIhvE', 'snprintf']   # snprintf only formats the rule text of the two table fall-backs for the log


# protection list of the property statement ("two words, 'return'/'case' and an operand, a macro name and the
# parenthesis opening its body"): option names whose Remove may be overridden where the tokens would fuse
PROTECT = {'sp_return', 'sp_case_label', 'sp_macro', 'sp_macro_func', 'sp_inside_angle', 'sp_before_ellipsis', 'sp_after_ellipsis'}


def gen_headers(prep):
    """rule sites of do_space(): source line of every log_rule("name") whose name is an IARF option (regenerated every run)"""
    opts = {}
    for m in re.finditer(r'extern\s+Option<\s*iarf_e\s*>\s*\n?\s*(\w+)\s*;', open('/repo/src/options.h').read()):
        opts[m.group(1)] = 1
    lines = open('/repo/src/space.cpp').read().split('\n')
    body = '/* rule sites of src/space.cpp: line -> IARF option named by log_rule() at that line */\n'
    n_all = 0
    for i, l in enumerate(lines, 1):
        m = re.search(r'\blog_rule\("([^"]+)"\)', l)
        if not m:
            continue
        n_all += 1
        if m.group(1) in opts:
            body += 'VP_RULE(%d, %s, %d)\n' % (i, m.group(1), 1 if m.group(1) in PROTECT else 0)
    body += '/* %d log_rule sites in the file */\n' % n_all
    return {'vp_sp_rules_gen.h': body}


# the two table fall-backs at the end of do_space (no_space_table: 35 entries, add_space_table: 291 entries) return the
# constants REMOVE / ADD under rule texts that are not option names; their 291-iteration scan does not fit the solver's
# memory together with the rest of do_space, so the scan is cut to one never-matching entry by a mechanical source patch
PATCH = [dict(file='space.cpp', subs=[
    (r'for \(auto it : no_space_table\)', 'static const no_space_table_t vp_cut1[1] = { { CT_TOKEN_COUNT_, CT_TOKEN_COUNT_ } }; for (auto it : vp_cut1)', 1),
    (r'for \(auto it : add_space_table\)', 'static const no_space_table_t vp_cut2[1] = { { CT_TOKEN_COUNT_, CT_TOKEN_COUNT_ } }; for (auto it : vp_cut2)', 1)])]
COMMON = dict(harness='sp.cpp', patch_sources=PATCH, mem_gb=34, max_cex=60, maxnd=700, vector_len=700, extra_tus=TUS, havoc_options=True, noop=NOLOGTEXT, gen_headers=gen_headers,
              assumptions=['neighbourhood of four chunks [p, first, second, n], all on one line; kinds and parent kinds over the whole token enumeration, all flag bits, '
                           'levels 0..3, texts of TLEN symbolic ASCII characters', 'log_rule2/log_rule4 record the call site instead of printing', 'the no_space_table / add_space_table fall-back scans at the end of do_space are cut (they return constants under non-option rule texts)',
                           'container models, logging helpers empty, UncText log text not maintained'])
OBLIGATIONS = [
    dict(COMMON, id='SP-ATTR', entry='vp_sp_attr',
         instances=lambda tier: [dict(name='t%d' % t, bound='4-chunk neighbourhood, texts of %d characters, every token kind / parent kind / flag valuation, every value of every option do_space reads' % t,
                                      unwind=6, defs=dict(TLEN=t, VP_CAP_INT=4, VP_CAP_U8=8), timeout=2400) for t in (1,)]),   # texts of 2 characters were not confirmed to finish within the memory cap: not registered
]
PROPERTIES = {
    'C19': dict(obligations=['SP-ATTR'],
                not_decided='application of the decision to columns (space_text), the fusion guard (ensure_force_space), later passes that move columns; rule names that are not IARF options are not attributed.'),
}

# ---- SP-APPLY / SP-FUSE: space_text() with do_space detached
PATCH2 = [dict(file='space.cpp', subs=[(r'^static iarf_e do_space\(Chunk \*first, Chunk \*second, int &min_sp\)\n\{', 'static iarf_e do_space(Chunk *first, Chunk *second, int &min_sp);\nstatic iarf_e vp_detached_do_space(Chunk *first, Chunk *second, int &min_sp)\n{', 1)])]
OBLIGATIONS.append(dict(id='SP-APPLY', harness='sp2.cpp', entry='vp_sp_apply', extra_tus=TUS + ['keywords.cpp'], havoc_options=True, patch_sources=PATCH2, noop=['snprintf'],
                        pinned_options=['use_options_overriding_for_qt_macros'], mem_gb=24,
                        instances=lambda tier: [dict(name='l%d-%d' % (a, b), bound='token texts of %d and %d printable characters (both words, or both punctuators of the ISO C/C++ list incl. comment openers), '
                                                     'every decision (av, min_sp 0..3) of do_space, original gap 0..2, every token kind, C and C++' % (a, b),
                                                     unwind=8, unwindset={'strlen|strcmp|memcpy|find_punctuator': 12}, defs=dict(L1=a, L2=b, VP_CAP_INT=4, VP_CAP_U8=12))
                                                for (a, b) in ([(1, 1), (1, 2), (2, 1)] if tier == 'quick' else [(1, 1), (1, 2), (2, 1), (2, 2), (3, 1), (1, 3)])],
                        assumptions=['do_space() replaced by a stub returning an arbitrary decision (source patch detaches the real one; SP-ATTR decides it)',
                                     'A and B are ordinary code tokens of the same lexical class (word/word or punctuator/punctuator); word-number and number-punctuator adjacency is outside the claim',
                                     'Qt SIGNAL/SLOT option overriding off', 'container models, logging helpers empty']))
import os as _os
if _os.environ.get('VP_EXPERIMENTAL'):      # not claimed until it has passed on the unchanged tree
    PROPERTIES['C19']['obligations'].append('SP-APPLY')
    PROPERTIES['C01'] = dict(obligations=['SP-APPLY'])
    PROPERTIES['C02'] = dict(obligations=['SP-APPLY'])
