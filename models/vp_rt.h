/* Runtime of the generated C (ir2c.py output).
 *  - under CBMC (__CPROVER__ defined): VP_* -> __CPROVER_assert/assume; the property
 *    description prefix classifies the outcome:
 *      "A:" assertion of the obligation        (FAILURE => candidate violation)
 *      "T:" uncaught exception / abort / trap  (FAILURE => candidate violation)
 *      "U:" LLVM 'unreachable' executed        (FAILURE => candidate violation, UB)
 *      "W:" reachability witness               (must be FAILURE, else vacuous)
 *      "C:" model capacity exceeded            (FAILURE => INCONCLUSIVE)
 *      "X:" unmodelled external reached        (FAILURE => INCONCLUSIVE)
 *  - native (gcc): the same events are printed, inputs come from a vector file
 *    (translator validation and counterexample replay).
 */
#ifndef VP_RT_H
#define VP_RT_H
#include <stdint.h>
#include <stddef.h>

#ifndef VP_MAXND
#define VP_MAXND 64
#endif

#ifdef __CPROVER__
uint64_t nondet_uint64(void);
uint64_t vp_nd_trace[VP_MAXND];
uint32_t vp_nd_n;
static uint64_t vp_nondet(void)
{
   uint64_t v = nondet_uint64();
   if (vp_nd_n < VP_MAXND) { vp_nd_trace[vp_nd_n] = v; }
   vp_nd_n++;
   return v;
}
static uint64_t vp_range(uint64_t lo, uint64_t hi)
{
   uint64_t v = vp_nondet();
   __CPROVER_assume(v >= lo && v <= hi);
   return v;
}
#define VP_ASSUME(c)       __CPROVER_assume((c) != 0)
#define VP_ASSERT(c, m)    __CPROVER_assert((c) != 0, "A:" m)
#define VP_WITNESS(m)      __CPROVER_assert(0, "W:" m)
#define VP_OBSERVE(t, v)   ((void)(v))
#define VP_CAPACITY(m)     do { __CPROVER_assert(0, "C:" m); __CPROVER_assume(0); } while (0)
#define VP_ABORT(m)        do { __CPROVER_assert(0, "T:" m); __CPROVER_assume(0); } while (0)
#define VP_UNMODELLED(m)   do { __CPROVER_assert(0, "X:" m); __CPROVER_assume(0); } while (0)
#define VP_UNREACHABLE()   do { __CPROVER_assert(0, "U:unreachable executed"); __CPROVER_assume(0); } while (0)
#define VP_STOP()          __CPROVER_assume(0)
static void vp_rt_init(void) {}
static void vp_rt_fini(void) {}
void *malloc(__CPROVER_size_t);
void free(void *);
static uint8_t *vp_malloc(uint64_t n) { uint8_t *p = (uint8_t *)malloc(n); __CPROVER_assume(p != 0); return p; }
static void vp_free(uint8_t *p) { free(p); }
#else
#include <stdio.h>
#include <stdlib.h>
#include <string.h>
#include <unistd.h>
uint64_t vp_nondet(void);          /* vp_native.c */
uint64_t vp_range(uint64_t lo, uint64_t hi);
void vp_event(const char *kind, const char *msg, uint64_t v);
void vp_native_exit(void);
#define VP_ASSUME(c)       do { if (!(c)) { vp_event("ASSUME-FALSE", "", 0); vp_native_exit(); } } while (0)
#define VP_ASSERT(c, m)    vp_event((c) ? "A-OK" : "A-FAIL", m, 0)
#define VP_WITNESS(m)      vp_event("W", m, 0)
#define VP_OBSERVE(t, v)   vp_event("O", t, (uint64_t)(v))
#define VP_CAPACITY(m)     do { vp_event("C", m, 0); vp_native_exit(); } while (0)
#define VP_ABORT(m)        do { vp_event("T", m, 0); vp_native_exit(); } while (0)
#define VP_UNMODELLED(m)   do { vp_event("X", m, 0); vp_native_exit(); } while (0)
#define VP_UNREACHABLE()   do { vp_event("U", "unreachable executed", 0); vp_native_exit(); } while (0)
#define VP_STOP()          do { vp_event("STOP", "", 0); vp_native_exit(); } while (0)
void vp_rt_init(void);
void vp_rt_fini(void);
static uint8_t *vp_malloc(uint64_t n) { uint8_t *p = (uint8_t *)malloc(n ? n : 1); if (!p) { abort(); } return p; }
static void vp_free(uint8_t *p) { free(p); }
#endif

static void vp_free2(uint8_t *p, uint64_t n) { (void)n; vp_free(p); }
static uint8_t *vp_calloc(uint64_t a, uint64_t b)
{
   uint64_t n = a * b;
   uint8_t *p = vp_malloc(n);
   for (uint64_t i = 0; i < n; i++) { p[i] = 0; }
   return p;
}
static uint32_t vp_errno_cell;
static uint32_t *vp_errno_location(void) { return &vp_errno_cell; }
static uint8_t vp_strerror_text[6] = { 'e', 'r', 'r', 'o', 'r', 0 };
static uint8_t *vp_strerror(uint32_t e) { (void)e; return vp_strerror_text; }
/* strtol, base 10 only (C11 7.22.1.4): leading isspace, optional sign, digits, clamp on overflow */
static uint64_t vp_strtol(uint8_t *s, uint8_t **end, uint32_t base)
{
   uint64_t i = 0, acc = 0;
   int neg = 0, any = 0, over = 0;
   if (base != 10) { VP_UNMODELLED("strtol with a base other than 10"); }
   while (s[i] == ' ' || (s[i] >= 9 && s[i] <= 13)) { i++; }
   if (s[i] == '-') { neg = 1; i++; } else if (s[i] == '+') { i++; }
   while (s[i] >= '0' && s[i] <= '9')
   {
      uint64_t d = (uint64_t)(s[i] - '0');
      if (acc > (0x7fffffffffffffffULL - d) / 10) { over = 1; } else { acc = acc * 10 + d; }
      any = 1;
      i++;
   }
   if (end) { *end = any ? s + i : s; }
   if (!any) { return 0; }
   if (over) { return neg ? 0x8000000000000000ULL : 0x7fffffffffffffffULL; }
   return neg ? (uint64_t)(-(int64_t)acc) : acc;
}
static uint32_t vp_cxa_atexit(void *a, uint8_t *b, uint8_t *c) { (void)a; (void)b; (void)c; return 0; }
static uint32_t vp_atexit(void *a) { (void)a; return 0; }
static void vp_c_abort(void) { VP_ABORT("abort() called"); }
static void vp_assert_fail(uint8_t *a, uint8_t *b, uint32_t c, uint8_t *d) { (void)a; (void)b; (void)c; (void)d; VP_ABORT("assert() failed"); }
static void vp_throw0(void) { VP_ABORT("C++ exception thrown by the standard library"); }
static void vp_throw1(uint8_t *m) { (void)m; VP_ABORT("C++ exception thrown by the standard library"); }
static void vp_throwv(uint8_t *m, ...) { (void)m; VP_ABORT("C++ exception thrown by the standard library"); }

/* byte-loop models of the mem/str functions; loops are bounded by --unwind like
 * every other loop (CBMC's own library models need exact libc prototypes, the
 * generated code uses uint8_t* throughout) */
#ifdef __CPROVER__
/* CBMC's own loop-free library models (array_copy/array_replace/array_set) */
void *memcpy(void *, const void *, __CPROVER_size_t);
void *memmove(void *, const void *, __CPROVER_size_t);
void *memset(void *, int, __CPROVER_size_t);
static uint8_t *vp_memcpy(uint8_t *d, uint8_t *s, uint64_t n) { memcpy((void *)d, (const void *)s, n); return d; }
static uint8_t *vp_memmove(uint8_t *d, uint8_t *s, uint64_t n) { memmove((void *)d, (const void *)s, n); return d; }
static uint8_t *vp_memset(uint8_t *d, int c, uint64_t n) { memset((void *)d, c, n); return d; }
#else
static uint8_t *vp_memcpy(uint8_t *d, uint8_t *s, uint64_t n) { memcpy(d, s, n); return d; }
static uint8_t *vp_memmove(uint8_t *d, uint8_t *s, uint64_t n) { memmove(d, s, n); return d; }
static uint8_t *vp_memset(uint8_t *d, int c, uint64_t n) { memset(d, c, n); return d; }
#endif
static uint32_t vp_memcmp(uint8_t *a, uint8_t *b, uint64_t n)
{
   for (uint64_t i = 0; i < n; i++) { if (a[i] != b[i]) { return (uint32_t)((int)a[i] - (int)b[i]); } }
   return 0;
}
static uint64_t vp_strlen(uint8_t *s) { uint64_t n = 0; while (s[n]) { n++; } return n; }
static uint32_t vp_strcmp(uint8_t *a, uint8_t *b)
{
   uint64_t i = 0;
   while (a[i] && a[i] == b[i]) { i++; }
   return (uint32_t)((int)a[i] - (int)b[i]);
}
static uint32_t vp_strncmp(uint8_t *a, uint8_t *b, uint64_t n)
{
   for (uint64_t i = 0; i < n; i++) { if (a[i] != b[i] || !a[i]) { return (uint32_t)((int)a[i] - (int)b[i]); } }
   return 0;
}
static uint32_t vp_tolower(uint32_t c) { return (c >= 'A' && c <= 'Z') ? c + 32 : c; }
static uint32_t vp_toupper(uint32_t c) { return (c >= 'a' && c <= 'z') ? c - 32 : c; }
static uint32_t vp_strcasecmp(uint8_t *a, uint8_t *b)
{
   uint64_t i = 0;
   while (a[i] && vp_tolower(a[i]) == vp_tolower(b[i])) { i++; }
   return (uint32_t)((int)vp_tolower(a[i]) - (int)vp_tolower(b[i]));
}
static uint32_t vp_strncasecmp(uint8_t *a, uint8_t *b, uint64_t n)
{
   for (uint64_t i = 0; i < n; i++)
   {
      if (vp_tolower(a[i]) != vp_tolower(b[i]) || !a[i]) { return (uint32_t)((int)vp_tolower(a[i]) - (int)vp_tolower(b[i])); }
   }
   return 0;
}
static uint8_t *vp_strchr(uint8_t *s, uint32_t c)
{
   uint64_t i = 0;
   for (;; i++) { if (s[i] == (uint8_t)c) { return s + i; } if (!s[i]) { return (uint8_t *)0; } }
}
static uint8_t *vp_strrchr(uint8_t *s, uint32_t c)
{
   uint8_t *r = (uint8_t *)0;
   uint64_t i = 0;
   for (;; i++) { if (s[i] == (uint8_t)c) { r = s + i; } if (!s[i]) { return r; } }
}
static uint8_t *vp_memchr(uint8_t *s, uint32_t c, uint64_t n)
{
   for (uint64_t i = 0; i < n; i++) { if (s[i] == (uint8_t)c) { return s + i; } }
   return (uint8_t *)0;
}
static uint8_t *vp_strcpy(uint8_t *d, uint8_t *s) { uint64_t i = 0; do { d[i] = s[i]; } while (s[i++]); return d; }
static uint8_t *vp_strncpy(uint8_t *d, uint8_t *s, uint64_t n)
{
   uint64_t i = 0;
   for ( ; i < n && s[i]; i++) { d[i] = s[i]; }
   for ( ; i < n; i++) { d[i] = 0; }
   return d;
}
static uint8_t *vp_strcat(uint8_t *d, uint8_t *s) { vp_strcpy(d + vp_strlen(d), s); return d; }
static uint8_t *vp_strstr(uint8_t *h, uint8_t *n)
{
   uint64_t ln = vp_strlen(n);
   if (!ln) { return h; }
   for (uint64_t i = 0; h[i]; i++) { if (vp_strncmp(h + i, n, ln) == 0) { return h + i; } }
   return (uint8_t *)0;
}
static uint8_t *vp_realloc(uint8_t *p, uint64_t n) { (void)p; (void)n; VP_UNMODELLED("realloc"); return (uint8_t *)0; }
/* "C" locale ctype */
static uint32_t vp_isspace(uint32_t c) { return c == ' ' || (c >= 9 && c <= 13); }
static uint32_t vp_isdigit(uint32_t c) { return c >= '0' && c <= '9'; }
static uint32_t vp_isupper(uint32_t c) { return c >= 'A' && c <= 'Z'; }
static uint32_t vp_islower(uint32_t c) { return c >= 'a' && c <= 'z'; }
static uint32_t vp_isalpha(uint32_t c) { return vp_isupper(c) || vp_islower(c); }
static uint32_t vp_isalnum(uint32_t c) { return vp_isalpha(c) || vp_isdigit(c); }
static uint32_t vp_isxdigit(uint32_t c) { return vp_isdigit(c) || (c >= 'a' && c <= 'f') || (c >= 'A' && c <= 'F'); }
static uint32_t vp_isprint(uint32_t c) { return c >= 32 && c < 127; }
static uint32_t vp_isgraph(uint32_t c) { return c > 32 && c < 127; }
static uint32_t vp_ispunct(uint32_t c) { return vp_isgraph(c) && !vp_isalnum(c); }
static uint32_t vp_isblank(uint32_t c) { return c == ' ' || c == '\t'; }
static uint32_t vp_iscntrl(uint32_t c) { return c < 32 || c == 127; }
static uint32_t vp_ctpop32(uint32_t x) { uint32_t n = 0; for (int i = 0; i < 32; i++) { n += (x >> i) & 1; } return n; }
static uint64_t vp_ctpop64(uint64_t x) { uint64_t n = 0; for (int i = 0; i < 64; i++) { n += (x >> i) & 1; } return n; }
static uint32_t vp_ctlz32(uint32_t x) { uint32_t n = 0; for (int i = 31; i >= 0 && !((x >> i) & 1); i--) { n++; } return n; }
static uint64_t vp_ctlz64(uint64_t x) { uint64_t n = 0; for (int i = 63; i >= 0 && !((x >> i) & 1); i--) { n++; } return n; }
static uint32_t vp_cttz32(uint32_t x) { uint32_t n = 0; for (int i = 0; i < 32 && !((x >> i) & 1); i++) { n++; } return n; }
static uint64_t vp_cttz64(uint64_t x) { uint64_t n = 0; for (int i = 0; i < 64 && !((x >> i) & 1); i++) { n++; } return n; }
static uint16_t vp_bswap16(uint16_t x) { return (uint16_t)((x >> 8) | (x << 8)); }
static uint32_t vp_bswap32(uint32_t x) { return (x >> 24) | ((x >> 8) & 0xff00u) | ((x << 8) & 0xff0000u) | (x << 24); }
#endif
