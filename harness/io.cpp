/* IO-* / CHK-* / BK-* obligations: the real file protocol of src/uncrustify.cpp
 * (do_source_file, load_mem_file, file_content_matches, bout_content_matches,
 * make_folders) and src/backup.cpp (backup_copy_file, backup_create_md5_file) over the
 * in-memory libc model of vp_fsmodel.h. Owners: C10, C12, C13, C14.
 *
 * Environment stubs (both builds, listed in the evidence):
 *   uncrustify_file()   - the formatter: writes the fixed but arbitrary byte string F the
 *                         way output_text does (fputc on cpd.fout, push_back on cpd.bout);
 *                         may "fail to format" (exit) first. The real definition is detached
 *                         by the engine's source patch (renamed, unused).
 *   MD5                 - abstract injective digest [len, b0, b1, b2, ...] (collision freedom
 *                         of MD5 on the explored contents is assumed, DESIGN.md section 2)
 *   language/keyword    - language_flags_from_filename -> LANG_C, init_keywords_for_language -> nothing
 *   libc file API       - vp_fsmodel.h */
#include "vp_fsmodel.h"
#define main unc_real_main_fn
#include "patched/uncrustify.cpp"
#undef main
#include "/repo/src/backup.cpp"
template class std::basic_string<char>;

#ifndef VPLO
#define VPLO VP_FS_L      /* length of the original content */
#endif
#ifndef VPLF
#define VPLF VP_FS_L      /* length of the formatted content */
#endif

static unsigned char vp_O[VP_FS_L + 1], vp_F[VP_FS_L + 1];
static bool          vp_fmt_fails;
static unsigned      vp_unc_calls;
static bool          vp_raw_ok = true;
static int           vp_mode;       /* which at-termination assertion set */
static bool          vp_no_backup;
static bool          vp_md5_matches_O;

/* ---- formatter stub */
void uncrustify_file(const file_mem &fm, FILE *pfout, const char *parsed_file, const char *dump_file, bool is_quiet, bool defer_uncrustify_end)
{
   (void)parsed_file; (void)dump_file;
   vp_unc_calls++;
   /* C10: the formatter is handed exactly the bytes of the file */
   if (fm.raw.size() != VPLO) { vp_raw_ok = false; }
   for (size_t i = 0; i < fm.raw.size() && i < VPLO; i++) { if (fm.raw[i] != vp_O[i]) { vp_raw_ok = false; } }
   if (vp_fmt_fails) { exit(EX_SOFTWARE); }
   cpd.fout = pfout;
   for (unsigned i = 0; i < VPLF; i++)
   {
      if (cpd.fout) { fputc(vp_F[i], cpd.fout); }
      if (cpd.bout) { cpd.bout->push_back(vp_F[i]); }
   }
   if (cpd.do_check && !bout_content_matches(fm, true, is_quiet)) { cpd.check_fail_cnt++; }
   if (!defer_uncrustify_end) { uncrustify_end(); }
}

/* ---- abstract digest */
MD5::MD5() { Init(); }
void MD5::Init() { m_bits[0] = 0; for (int i = 0; i < 16; i++) { m_in32[i] = 0; } }
void MD5::Update(const void *data, UINT32 len)
{
   for (UINT32 i = 0; i < len; i++)
   {
      if (m_bits[0] < 15) { m_in32[m_bits[0]] = ((const UINT8 *)data)[i]; }
      m_bits[0]++;
   }
}
void MD5::Final(UINT8 digest[16])
{
   digest[0] = (UINT8)m_bits[0];
   for (int i = 1; i < 16; i++) { digest[i] = (UINT8)m_in32[i - 1]; }
}
void MD5::Calc(const void *data, UINT32 length, UINT8 digest[16]) { MD5 m; m.Update(data, length); m.Final(digest); }
void MD5::Transform(UINT32 *, UINT32 *) {}
void MD5::reverse_u32(UINT8 *, int) {}

size_t language_flags_from_filename(const char *) { return e_LANG_C; }
void init_keywords_for_language() {}

/* ---- file system set-up */
enum { S_IN = 0, S_TMP = 1, S_BAK = 2, S_OUT = 3, S_TMP2 = 4, S_MD5 = VP_FS_NFILES };
static std::deque<UINT8> vp_bout;

static void vp_hex_digest_of(const unsigned char *c, unsigned len, unsigned char *out36)
{
   /* what backup_create_md5_file writes for a file named "f" holding c[0..len) */
   UINT8 dig[16];
   MD5::Calc(c, len, dig);
   for (int i = 0; i < 16; i++)
   {
      unsigned hi = dig[i] >> 4, lo = dig[i] & 15;
      out36[2 * i]     = (unsigned char)(hi < 10 ? '0' + hi : 'a' + hi - 10);
      out36[2 * i + 1] = (unsigned char)(lo < 10 ? '0' + lo : 'a' + lo - 10);
   }
   out36[32] = ' '; out36[33] = ' '; out36[34] = 'f'; out36[35] = '\n';
}
static bool vp_is(int s, const unsigned char *c, unsigned len)
{
   if (!vp_n_exists[s] || vp_n_len[s] != len) { return false; }
   for (unsigned i = 0; i < len; i++) { if (vp_node_get(s, i) != c[i]) { return false; } }
   return true;
}
static void vp_io_setup(bool in_place)
{
   vp_fs_name[S_IN]   = "f";
   vp_fs_name[S_TMP]  = "f.uncrustify";
   vp_fs_name[S_BAK]  = "f.unc-backup~";
   vp_fs_name[S_MD5]  = "f.unc-backup.md5~";
   vp_fs_name[S_OUT]  = "o";
   vp_fs_name[S_TMP2] = 0;
   stdout = (FILE *)(void *)&vp_console_obj;
   stderr = (FILE *)(void *)&vp_console_obj;
   for (unsigned i = 0; i < VPLO; i++) { vp_O[i] = vp_u8(); }
   for (unsigned i = 0; i < VPLF; i++) { vp_F[i] = vp_u8(); }
   vp_n_exists[S_IN] = true;
   vp_n_len[S_IN]    = VPLO;
   for (unsigned i = 0; i < VPLO; i++) { vp_node_put(S_IN, i, vp_O[i]); }
   /* arbitrary leftovers of earlier runs: a stale temp file, an old backup */
   vp_n_exists[S_TMP] = vp_bool();
   vp_n_len[S_TMP]    = (unsigned)vp_range(0, VP_FS_L);
   vp_n_exists[S_BAK] = vp_bool();
   vp_n_len[S_BAK]    = (unsigned)vp_range(0, VP_FS_L);
   for (unsigned i = 0; i < VP_FS_L; i++) { vp_node_put(S_TMP, i, vp_u8()); vp_node_put(S_BAK, i, vp_u8()); }
   vp_n_exists[S_OUT] = in_place ? false : vp_bool();
   vp_n_len[S_OUT]    = 0;
#ifndef VP_REAL_STL
   new (&cpd.filename) std::string();     /* the solver build starts from all-zero storage: give the string a valid empty state */
#endif
   cpd.lang_flags  = e_LANG_C;
   cpd.lang_forced = true;
   cpd.bout        = nullptr;
}
/* md5 side file: absent, or the record of some content X (|X| <= L, arbitrary) */
static unsigned char vp_X[VP_FS_L + 1];
static unsigned      vp_XL;
static void vp_md5_prestate()
{
   vp_n_exists[S_MD5] = vp_bool();
   vp_XL = (unsigned)vp_range(0, VP_FS_L);
   for (unsigned i = 0; i < VP_FS_L; i++) { vp_X[i] = vp_u8(); }
   unsigned char hx[36];
   vp_hex_digest_of(vp_X, vp_XL, hx);
   for (unsigned i = 0; i < 36; i++) { vp_node_put(S_MD5, i, hx[i]); }
   vp_n_len[S_MD5] = 36;
   bool same = (vp_XL == VPLO);
   for (unsigned i = 0; i < VPLO; i++) { if (vp_X[i] != vp_O[i]) { same = false; } }
   vp_md5_matches_O = vp_n_exists[S_MD5] && same;
}
static void vp_schedule(bool crash, int nfaults)
{
   vp_crash_keep  = (unsigned)vp_range(0, VP_FS_MD5LEN);
   vp_fault_keep1 = (unsigned)vp_range(0, VP_FS_MD5LEN);
   vp_fault_keep2 = (unsigned)vp_range(0, VP_FS_MD5LEN);
   if (crash) { vp_crash_at = (unsigned)vp_range(0, 64); }
   if (nfaults >= 1) { vp_fault_at1 = (unsigned)vp_range(0, 64); }
   if (nfaults >= 2) { vp_fault_at2 = (unsigned)vp_range(0, 64); vp_assume(vp_fault_at2 > vp_fault_at1); }
}

/* ---- at-termination assertions */
enum { M_ATOMIC = 1, M_FUNNEL, M_CHECK, M_IFCH, M_BKSTEP };
static void vp_at_termination(int how, int status);
static void vp_at_termination(int how, int status)
{
   vp_observe("file-ops", vp_ncalls);
   vp_observe("how", (uint64_t)how);
   if (vp_mode == M_ATOMIC)
   {
      bool isO = vp_is(S_IN, vp_O, VPLO), isF = vp_is(S_IN, vp_F, VPLF);
      vp_assert(isO || isF, "C13:target holds neither the complete original nor the complete formatted bytes");
      if (!vp_no_backup && !isO)
      {
         vp_assert(vp_is(S_BAK, vp_O, VPLO), "C13:target was replaced but no backup holds exactly the original bytes");
      }
      if (how == 0)
      {
         vp_assert(isF, "C13:run reported success (exit 0) although the target does not hold the formatted bytes");
      }
      if (how == 1) { vp_assert(status != 0, "C13:exit(0) on a failure path"); }
      if (how == 0) { vp_witness("opt:atomic-return"); }
      if (how == 1) { vp_witness("opt:atomic-exit"); }
      if (how == 2) { vp_witness("opt:atomic-crash"); }
   }
}

/* IO-ATOMIC (C13): in-place rewrite, one crash point and/or up to two faults */
#ifndef NFAULTS
#define NFAULTS 1
#endif
#ifndef CRASH
#define CRASH 1
#endif
extern "C" void vp_io_atomic()
{
   vp_io_setup(true);
   vp_md5_prestate();
   /* C13 speaks about the bytes the user had in the file: the case "the file is uncrustify's own
    * last output, recorded in the md5 side file" (no new backup by design) is C14's subject */
   vp_assume(!vp_md5_matches_O);
   vp_mode      = M_ATOMIC;
   /* run modes concrete per instance (they prune whole phases of the protocol), data and schedule symbolic */
#ifdef NOBACKUP
   vp_no_backup = (NOBACKUP != 0);
#else
   vp_no_backup = vp_bool();
#endif
   vp_fmt_fails = vp_bool();
#ifdef IFCH
   cpd.if_changed = (IFCH != 0);
#else
   cpd.if_changed = vp_bool();
#endif
   cpd.do_check   = false;
   if (cpd.if_changed) { cpd.bout = &vp_bout; }
   vp_schedule(CRASH != 0, NFAULTS);
   do_source_file("f", "f", nullptr, nullptr, vp_no_backup, false, true);
   vp_at_termination(vp_dead ? 2 : 0, 0);
   vp_witness("end");
}

/* ======================================================================================
 * IO-FUNNEL (C10): every delivery/output mode hands the formatter the bytes of the file and
 * delivers the formatter's bytes unmodified to the target. No faults, no crash. */
static bool vp_console_got_F;
extern "C" void vp_io_funnel()
{
   vp_io_setup(false);
   vp_md5_prestate();
   vp_mode = M_FUNNEL;
#ifdef FMODE
   unsigned mode = FMODE;                           /* delivery mode concrete per instance */
#else
   unsigned mode = (unsigned)vp_range(0, 2);        /* 0: in place, 1: -o other file, 2: stdout */
#endif
#ifdef NOBACKUP
   vp_no_backup   = (NOBACKUP != 0);
#else
   vp_no_backup   = vp_bool();
#endif
   cpd.if_changed = vp_bool();
   cpd.do_check   = false;
   if (cpd.if_changed) { cpd.bout = &vp_bout; }
   unsigned diag0 = vp_diag;
   do_source_file("f", mode == 0 ? "f" : (mode == 1 ? "o" : nullptr), nullptr, nullptr, vp_no_backup, false, true);
   vp_assert(vp_unc_calls == 1, "C10:formatter not run exactly once for the file");
   vp_assert(vp_raw_ok, "C10:formatter was handed bytes other than the file's");
   bool same = (VPLO == VPLF);
   for (unsigned i = 0; i < VPLO && i < VPLF; i++) { if (vp_O[i] != vp_F[i]) { same = false; } }
   if (mode == 0)
   {
      vp_assert(vp_is(S_IN, vp_F, VPLF), "C10:in-place target does not hold the formatter's bytes");
   }
   else if (mode == 1)
   {
      if (!(cpd.if_changed && same)) { vp_assert(vp_is(S_OUT, vp_F, VPLF), "C10:-o target does not hold the formatter's bytes"); }
      vp_assert(vp_is(S_IN, vp_O, VPLO), "C10:source file modified although output goes elsewhere");
   }
   else
   {
      if (!(cpd.if_changed && same)) { vp_assert(vp_diag - diag0 == VPLF, "C10:stdout did not receive exactly the formatter's bytes"); }
      vp_assert(vp_is(S_IN, vp_O, VPLO), "C10:source file modified although output goes to stdout");
   }
   vp_witness("end");
}

/* CHK-CMP (C12): bout_content_matches is byte equality, and reports accordingly */
#ifndef VPLB
#define VPLB VPLF
#endif
extern "C" void vp_chk_cmp()
{
   file_mem fm;
#ifndef VP_REAL_STL
   new (&cpd.filename) std::string();     /* the solver build starts from all-zero storage: give the string a valid empty state */
#endif
   cpd.filename = "f";
   stdout = (FILE *)(void *)&vp_console_obj;
   stderr = (FILE *)(void *)&vp_console_obj;
   bool eq = (VPLO == VPLB);
   for (unsigned i = 0; i < VPLO; i++) { UINT8 b = vp_u8(); fm.raw.push_back(b); vp_O[i] = b; }
   for (unsigned i = 0; i < VPLB; i++) { UINT8 b = vp_u8(); vp_bout.push_back(b); if (i < VPLO && b != vp_O[i]) { eq = false; } }
   cpd.bout = &vp_bout;
   bool report = vp_bool(), quiet = vp_bool();
   unsigned d0 = vp_diag;
   bool r = bout_content_matches(fm, report, quiet);
   vp_assert(r == eq, "C12:comparison result is not byte equality of input and formatted output");
   if (report && !eq) { vp_assert(vp_diag > d0, "C12:difference found but no FAIL line"); }
   if (report && eq && quiet) { vp_assert(vp_diag == d0, "C12:PASS line printed although quiet"); }
   if (!report) { vp_assert(vp_diag == d0, "C12:status line printed although not requested"); }
   vp_witness("end");
}

/* CHK-NOWRITE / IFCH (C12): --check never touches the file system; --if-changed writes only on a difference */
extern "C" void vp_chk_nowrite()
{
   vp_io_setup(false);
   vp_md5_prestate();
   vp_mode = M_CHECK;
#ifdef CHECKMODE
   bool check = (CHECKMODE != 0);      /* run mode concrete per instance */
#else
   bool check = vp_bool();
#endif
   cpd.do_check   = check;
   cpd.if_changed = !check;
   cpd.bout       = &vp_bout;
   vp_fmt_fails   = false;
#ifdef INPLACE
   unsigned inplace = INPLACE;
#else
   unsigned inplace = (unsigned)vp_range(0, 1);
#endif
   /* main() rejects --check together with output options: with --check the output name is absent */
   const char *out = check ? nullptr : (inplace ? "f" : "o");
   vp_no_backup = vp_bool();
   bool same = (VPLO == VPLF);
   for (unsigned i = 0; i < VPLO && i < VPLF; i++) { if (vp_O[i] != vp_F[i]) { same = false; } }
   int fails0 = cpd.check_fail_cnt;
   do_source_file("f", out, nullptr, nullptr, vp_no_backup, false, true);
   if (check)
   {
      vp_assert(vp_mutations == 0 && vp_wopens == 0, "C12:--check created, modified or removed a file");
      vp_assert(vp_is(S_IN, vp_O, VPLO), "C12:--check changed the source file");
      vp_assert((cpd.check_fail_cnt - fails0) == (same ? 0 : 1), "C12:failure count does not reflect whether the file would be reproduced");
      vp_witness("opt:check");
   }
   else if (same)
   {
      vp_assert(vp_mutations == 0 && vp_wopens == 0, "C12:--if-changed wrote although nothing changed");
      vp_witness("opt:ifchanged-same");
   }
   else
   {
      vp_assert(vp_is(inplace ? S_IN : S_OUT, vp_F, VPLF), "C12:--if-changed did not write exactly the formatted bytes");
      vp_witness("opt:ifchanged-diff");
   }
   vp_witness("end");
}

/* BK-STEP (C14): one --replace run from an arbitrary state satisfying the protocol invariant.
 * Ghost state: U = what uncrustify last left in the file (vp_X, recorded in the md5 side file),
 *              B = the backup content. Invariant Inv: md5 file absent (no run yet), or md5 file == md5(U).
 * Step: the user may have edited the file since (content O arbitrary; O == U means "no edit").
 * After the run: md5 file describes the new content of the file, and the backup holds the user's
 * text O if the user had edited (O != U), else is unchanged. */
extern "C" void vp_bk_step()
{
   vp_io_setup(true);
   vp_md5_prestate();
   vp_mode = M_BKSTEP;
   unsigned char B0[VP_FS_L + 1];
   unsigned      B0len = vp_n_len[S_BAK];
   bool          B0ex  = vp_n_exists[S_BAK];
   for (unsigned i = 0; i < VP_FS_L; i++) { B0[i] = vp_node_get(S_BAK, i); }
   vp_no_backup   = false;
   vp_fmt_fails   = false;
   cpd.if_changed = false;
   cpd.do_check   = false;
   bool edited = !vp_md5_matches_O;     /* first run ever, or content differs from what uncrustify left */
   do_source_file("f", "f", nullptr, nullptr, false, false, true);
   vp_assert(vp_is(S_IN, vp_F, VPLF), "C14:file does not hold the formatted text after the run");
   /* the md5 side file describes the content uncrustify left */
   unsigned char want[36];
   vp_hex_digest_of(vp_F, VPLF, want);
   bool md5ok = vp_n_exists[S_MD5] && vp_n_len[S_MD5] == 36;
   for (unsigned i = 0; i < 32; i++) { if (vp_node_get(S_MD5, i) != want[i]) { md5ok = false; } }
   vp_assert(md5ok, "C14:md5 side file does not describe the content uncrustify left in the file");
   if (edited)
   {
      vp_assert(vp_is(S_BAK, vp_O, VPLO), "C14:backup does not hold the text the user had written");
      vp_witness("opt:edited");
   }
   else
   {
      bool keep = (vp_n_exists[S_BAK] == B0ex) && (!B0ex || vp_n_len[S_BAK] == B0len);
      for (unsigned i = 0; B0ex && i < B0len && i < VP_FS_L; i++) { if (vp_node_get(S_BAK, i) != B0[i]) { keep = false; } }
      vp_assert(keep, "C14:backup overwritten although the file held uncrustify's own last output");
      vp_witness("opt:not-edited");
   }
   vp_witness("end");
}

/* ST-RESET (C11): the per-file reset. From an ARBITRARY valuation of the per-file state that the
 * tokenizer, the newline passes and the output stage read before they write it (left behind by a
 * previous file: disabled region still open, preprocessor level, terminator census, ...), the real
 * uncrustify_end() restores the values a fresh process starts with, empties the chunk list and the
 * capture buffer. One step from an arbitrary state = any number of previous files. */
extern "C" void vp_st_reset()
{
   cpd.unc_off     = vp_bool();
   cpd.al_cnt      = (size_t)vp_nondet();
   cpd.did_newline = vp_bool();
   cpd.pp_level    = (int)vp_nondet();
   cpd.changes     = (int)vp_nondet();
   cpd.in_preproc  = vp_bool() ? CT_PREPROC : CT_PP_DEFINE;
   for (int i = 0; i < 3; i++) { cpd.le_counts[i] = (UINT32)vp_nondet(); }
   cpd.preproc_ncnl_count    = (int)vp_nondet();
   cpd.ifdef_over_whole_file = (int)vp_nondet();
   cpd.warned_unable_string_replace_tab_chars = vp_bool();
   cpd.bout = vp_bool() ? &vp_bout : nullptr;
   for (unsigned i = 0; i < VPLO; i++) { vp_bout.push_back(vp_u8()); }
   unsigned nchunks = (unsigned)vp_range(0, 2);
   for (unsigned i = 0; i < 2; i++)
   {
      if (i < nchunks)
      {
         Chunk c;
         c.SetType(vp_bool() ? CT_WORD : CT_NEWLINE);
         c.SetOrigLine(1);
         c.SetPpLevel(0);
         c.CopyAndAddBefore(Chunk::NullChunkPtr);
      }
   }
   uncrustify_end();
   vp_assert(Chunk::GetHead()->IsNullChunk() && Chunk::GetTail()->IsNullChunk(), "C11:chunks of the previous file survive the per-file reset");
   vp_assert(!cpd.unc_off, "C11:a disabled region left open by one file carries over to the next");
   vp_assert(cpd.in_preproc == CT_NONE && cpd.pp_level == 0 && cpd.preproc_ncnl_count == 0, "C11:preprocessor state carries over to the next file");
   vp_assert(cpd.le_counts[0] == 0 && cpd.le_counts[1] == 0 && cpd.le_counts[2] == 0, "C11:line-terminator census carries over to the next file (newlines=auto would depend on earlier files)");
   vp_assert(cpd.did_newline && cpd.changes == 0 && cpd.al_cnt == 0 && cpd.ifdef_over_whole_file == 0 && !cpd.warned_unable_string_replace_tab_chars,
             "C11:pass bookkeeping carries over to the next file");
   vp_assert(cpd.bout == nullptr || cpd.bout->size() == 0, "C11:captured output of the previous file not cleared");
   vp_witness("end");
}
