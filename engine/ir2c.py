#!/usr/bin/env python3
"""LLVM-14 IR (typed pointers, clang -O1) -> C for CBMC, typed translation.

 * every LLVM aggregate (named struct, literal struct, array) becomes a C struct
   with the same field order (arrays: struct { T e[N]; }), so GEPs are member /
   element accesses and CBMC keeps a field-sensitive memory model;
 * integers are exact-width unsigned C types, signed ops through casts, odd widths
   masked; shifts by >= width yield 0 (LLVM poison, never flagged);
 * phi nodes: parallel copies on the edges;
 * calls to the vp_* primitives become VP_* macros (CBMC: __CPROVER_assert/assume);
 * externals: a fixed table of libc wrappers (vp_rt.h); everything else becomes a
   stub that raises "X:unmodelled external <name>" - never a silent nondet.

usage: ir2c.py IN.ll OUT.c --entry NAME [--redirect A=B ...] [--noop NAME ...]
"""
import sys
import re
import json
import hashlib
from irparse import parse_module, parse_inst, IRError, Toks, lex

# externals implemented in models/vp_rt.h (IR name -> C name)
RT_EXTERNALS = {
    '@memcpy': 'vp_memcpy', '@memmove': 'vp_memmove', '@memset': 'vp_memset', '@memcmp': 'vp_memcmp',
    '@bcmp': 'vp_memcmp', '@strlen': 'vp_strlen', '@strcmp': 'vp_strcmp', '@strncmp': 'vp_strncmp',
    '@strchr': 'vp_strchr', '@strrchr': 'vp_strrchr', '@strcasecmp': 'vp_strcasecmp',
    '@strncasecmp': 'vp_strncasecmp', '@memchr': 'vp_memchr', '@strcpy': 'vp_strcpy',
    '@strncpy': 'vp_strncpy', '@strcat': 'vp_strcat', '@strstr': 'vp_strstr',
    '@malloc': 'vp_malloc', '@free': 'vp_free', '@calloc': 'vp_calloc', '@realloc': 'vp_realloc',
    '@_Znwm': 'vp_malloc', '@_Znam': 'vp_malloc', '@_ZdlPv': 'vp_free', '@_ZdaPv': 'vp_free',
    '@_ZdlPvm': 'vp_free2', '@_ZdaPvm': 'vp_free2',
    '@__cxa_atexit': 'vp_cxa_atexit', '@atexit': 'vp_atexit',
    '@abort': 'vp_c_abort', '@__assert_fail': 'vp_assert_fail', '@__cxa_pure_virtual': 'vp_c_abort',
    '@_ZSt9terminatev': 'vp_c_abort',
    '@_ZSt20__throw_length_errorPKc': 'vp_throw1', '@_ZSt19__throw_logic_errorPKc': 'vp_throw1',
    '@_ZSt20__throw_out_of_rangePKc': 'vp_throw1', '@_ZSt17__throw_bad_allocv': 'vp_throw0',
    '@_ZSt24__throw_out_of_range_fmtPKcz': 'vp_throwv', '@_ZSt28__throw_bad_array_new_lengthv': 'vp_throw0',
    '@_ZSt25__throw_bad_function_callv': 'vp_throw0', '@_ZSt24__throw_invalid_argumentPKc': 'vp_throw1',
    '@_ZSt21__throw_runtime_errorPKc': 'vp_throw1', '@_ZSt16__throw_bad_castv': 'vp_throw0',
    '@isspace': 'vp_isspace', '@isalpha': 'vp_isalpha', '@isdigit': 'vp_isdigit', '@isxdigit': 'vp_isxdigit',
    '@isalnum': 'vp_isalnum', '@isupper': 'vp_isupper', '@islower': 'vp_islower', '@isprint': 'vp_isprint',
    '@ispunct': 'vp_ispunct', '@isblank': 'vp_isblank', '@iscntrl': 'vp_iscntrl', '@isgraph': 'vp_isgraph',
    '@tolower': 'vp_tolower', '@toupper': 'vp_toupper',
    '@__errno_location': 'vp_errno_location', '@strerror': 'vp_strerror', '@strtol': 'vp_strtol',
}
NOOP_EXTERNALS = {'@_ZNSt8ios_base4InitC1Ev', '@_ZNSt8ios_base4InitD1Ev'}
VP_PRIMS = {'@vp_nondet', '@vp_range', '@vp_assume', '@vp_assert', '@vp_witness', '@vp_observe', '@vp_capacity',
            '@vp_abort', '@vp_unmodelled', '@vp_stop'}


def san(name):
    n = name
    if n[0] in '@%':
        n = n[1:]
    if n.startswith('"'):
        n = n[1:-1]
    return re.sub(r'[^A-Za-z0-9_]', lambda m: '_' if m.group(0) in '.:<> ,' else '_%02X' % ord(m.group(0)), n)


class Emitter:
    def __init__(self, mod, entry, redirect, noop, noop_re=None):
        self.m = mod
        self.noop_re = re.compile(noop_re) if noop_re else None
        self.split_globals = set()
        self.split_fields = {}
        self.entry = entry
        self.redirect = redirect
        self.noop = set(noop) | NOOP_EXTERNALS
        self.struct_names = {}    # named type -> C struct tag
        self.used_tags = set()
        self.lit_structs = {}     # structural key -> tag
        self.arr_structs = {}     # (n, elkey) -> tag
        self.fn_typedefs = {}     # key -> name
        self.agg_defs = {}        # tag -> ('struct', fields, packed) | ('arr', n, el)
        self.out_funcs = []
        self.needed_funcs = []
        self.seen_funcs = set()
        self.needed_globals = []
        self.seen_globals = set()
        self.extern_stubs = {}
        self.strings = {}
        self.stats = dict(functions=[], externals=[], unmodelled=[], ext_globals=[], insts=0, noop=[])
        for tname in mod.type_order:
            tag = 'S_' + san(tname)
            base = tag
            k = 1
            while tag in self.used_tags:
                k += 1
                tag = '%s_%d' % (base, k)
            self.used_tags.add(tag)
            self.struct_names[tname] = tag

    # ------------------------------------------------------------ types
    def tkey(self, ty):
        k = ty[0]
        if k == 'int':
            return 'i%d' % ty[1]
        if k == 'ptr':
            return 'p_' + self.tkey(ty[1])
        if k == 'named':
            return self.struct_names[ty[1]]
        if k == 'arr':
            return 'a%d_%s' % (ty[1], self.tkey(ty[2]))
        if k == 'struct':
            return ('ps_' if ty[2] else 's_') + '_'.join(self.tkey(f) for f in ty[1]) + '_e'
        if k == 'func':
            return 'fn_%s_%s%s_e' % (self.tkey(ty[1]), '_'.join(self.tkey(p) for p in ty[2]), '_va' if ty[3] else '')
        if k == 'void':
            return 'v'
        if k == 'fp':
            return ty[1]
        if k == 'opaque':
            return 'opaque'
        raise IRError('tkey: ' + repr(ty))

    def short(self, key, prefix):
        if len(key) <= 40 and re.fullmatch(r'\w+', key):
            return prefix + key
        return prefix + hashlib.sha1(key.encode()).hexdigest()[:12]

    def int_ctype(self, bits):
        if bits <= 8:
            return 'uint8_t'
        if bits <= 16:
            return 'uint16_t'
        if bits <= 32:
            return 'uint32_t'
        if bits <= 64:
            return 'uint64_t'
        if bits <= 128:
            return 'unsigned __int128'
        raise IRError('integer too wide: i%d' % bits)

    def sint_ctype(self, bits):
        if bits <= 8:
            return 'int8_t'
        if bits <= 16:
            return 'int16_t'
        if bits <= 32:
            return 'int32_t'
        if bits <= 64:
            return 'int64_t'
        if bits <= 128:
            return '__int128'
        raise IRError('integer too wide: i%d' % bits)

    def storage_bits(self, bits):
        for b in (8, 16, 32, 64, 128):
            if bits <= b:
                return b
        raise IRError('integer too wide')

    def ct(self, ty):
        """C type name usable as 'T name'"""
        k = ty[0]
        if k == 'int':
            return self.int_ctype(ty[1])
        if k == 'void':
            return 'void'
        if k == 'fp':
            if ty[1] == 'float':
                return 'float'
            if ty[1] == 'double':
                return 'double'
            if ty[1] == 'x86_fp80':
                return 'long double'
            raise IRError('fp type ' + ty[1])
        if k == 'ptr':
            t = ty[1]
            if t[0] == 'void' or t == ('int', 8):
                return 'uint8_t*'
            if t[0] == 'named' and self.m.types.get(t[1]) in (('opaque',), None):
                return 'struct ' + self.struct_names[t[1]] + '*'
            return self.ct(t) + '*'
        if k == 'named':
            d = self.m.types.get(ty[1])
            tag = self.struct_names[ty[1]]
            if d is not None and d != ('opaque',) and tag not in self.agg_defs:
                self.agg_defs[tag] = None  # reserve (recursion guard)
                self.agg_defs[tag] = ('struct', d[1], d[2])
                for f in d[1]:
                    self.ct(f)
            return 'struct ' + tag
        if k == 'struct':
            key = self.tkey(ty)
            tag = self.lit_structs.get(key)
            if tag is None:
                tag = self.short(key, 'L_')
                self.lit_structs[key] = tag
                self.agg_defs[tag] = ('struct', ty[1], ty[2])
                for f in ty[1]:
                    self.ct(f)
            return 'struct ' + tag
        if k == 'arr':
            key = self.tkey(ty)
            tag = self.arr_structs.get(key)
            if tag is None:
                tag = self.short(key, 'A_')
                self.arr_structs[key] = tag
                self.agg_defs[tag] = ('arr', ty[1], ty[2])
                self.ct(ty[2])
            return 'struct ' + tag
        if k == 'func':
            key = self.tkey(ty)
            name = self.fn_typedefs.get(key)
            if name is None:
                name = self.short(key, 'F_')
                self.fn_typedefs[key] = name
                ret = self.ct(ty[1])
                ps = [self.ct(p) for p in ty[2]]
                if ty[3] and ps:
                    ps.append('...')
                if not ps:
                    ps = ['void']
                self.fn_typedef_defs = getattr(self, 'fn_typedef_defs', [])
                self.fn_typedef_defs.append('typedef %s %s(%s);' % (ret, name, ', '.join(ps)))
            return name
        if k == 'vec':
            raise IRError('vector types unsupported (compile with -fno-vectorize)')
        raise IRError('ct: ' + repr(ty))

    def resolve(self, ty):
        while ty[0] == 'named':
            d = self.m.types.get(ty[1])
            if d is None:
                raise IRError('undefined type ' + ty[1])
            if d == ('opaque',):
                return d
            ty = d
        return ty

    def align_of(self, ty):
        r = self.resolve(ty)
        k = r[0]
        if k == 'int':
            return min(16, self.storage_bits(r[1]) // 8)
        if k in ('ptr',):
            return 8
        if k == 'fp':
            return {'float': 4, 'double': 8, 'x86_fp80': 16}[r[1]]
        if k == 'arr':
            return self.align_of(r[2])
        if k == 'struct':
            if r[2]:
                return 1
            return max([self.align_of(f) for f in r[1]] + [1])
        raise IRError('align_of ' + repr(r))

    def size_of(self, ty):
        r = self.resolve(ty)
        k = r[0]
        if k == 'int':
            return self.storage_bits(r[1]) // 8
        if k == 'ptr':
            return 8
        if k == 'fp':
            return {'float': 4, 'double': 8, 'x86_fp80': 16}[r[1]]
        if k == 'arr':
            return r[1] * self.size_of(r[2])
        if k == 'struct':
            off = 0
            for f in r[1]:
                if not r[2]:
                    a = self.align_of(f)
                    off = (off + a - 1) // a * a
                off += self.size_of(f)
            a = self.align_of(ty)
            return (off + a - 1) // a * a
        raise IRError('size_of ' + repr(r))

    def is_agg(self, ty):
        return self.resolve(ty)[0] in ('struct', 'arr')

    # ------------------------------------------------------------ constants / values
    def int_lit(self, bits, n):
        mask = (1 << bits) - 1
        n &= mask
        if bits > 64:
            hi = n >> 64
            lo = n & ((1 << 64) - 1)
            return '((((unsigned __int128)%dULL) << 64) | %dULL)' % (hi, lo)
        if bits > 32:
            return '%dULL' % n
        return '((%s)%dU)' % (self.int_ctype(bits), n)

    def zero_of(self, ty, static):
        r = self.resolve(ty)
        if r[0] in ('struct', 'arr'):
            if static:
                return '{0}'
            return '((%s){0})' % self.ct(ty)
        if r[0] == 'ptr':
            return '((%s)0)' % self.ct(ty)
        if r[0] == 'fp':
            return '0.0'
        return '0'

    def val(self, ty, v, static=False):
        k = v[0]
        if k == 'local':
            return 'v_' + san(v[1])
        if k == 'global':
            return self.global_ref(v[1])
        if k == 'int':
            r = self.resolve(ty)
            if r[0] != 'int':
                raise IRError('int constant of non-int type')
            return self.int_lit(r[1], v[1])
        if k == 'null':
            return '((%s)0)' % self.ct(ty)
        if k in ('undef', 'zero'):
            return self.zero_of(ty, static)
        if k == 'fpconst':
            t = v[1]
            if t.startswith('0x'):
                import struct
                return repr(struct.unpack('>d', bytes.fromhex(t[2:].rjust(16, '0')))[0])
            return t
        if k == 'cstr':
            body = '{{' + ','.join(str(b) for b in v[1]) + '}}'
            if static:
                return body
            return '((%s)%s)' % (self.ct(ty), body)
        if k == 'agg':
            r = self.resolve(ty)
            if v[1] == 'arr':
                body = '{{' + ','.join(self.val(et, ev, True) for (et, ev) in v[2]) + '}}'
            else:
                body = '{' + ','.join(self.val(et, ev, True) for (et, ev) in v[2]) + '}'
            if static:
                return body
            return '((%s)%s)' % (self.ct(ty), body)
        if k == 'cexpr':
            return self.cexpr(v)
        raise IRError('val: ' + repr(v))

    def cexpr(self, v):
        op = v[1]
        if op == 'gep':
            _, _, sty, pty, base, idx = v
            return self.gep_expr(sty, pty, base, idx)[0]
        if op == 'cast':
            _, _, cop, fty, x, tty = v
            if cop == 'ptrtoint' and x[0] == 'global' and x[1] in self.m.funcs and self.resolve(tty)[0] == 'int':
                # C++ pointer-to-member-function constants ({ptr, adj} with ptr = ptrtoint @f): give every such
                # function a small even integer id; the matching inttoptr + indirect call becomes a switch over
                # the ids (vp_dispatch_*), so CBMC sees direct calls and constant-propagates the selector
                return self.int_lit(self.resolve(tty)[1], self.fn_id(x[1]))
            return self.cast_expr(cop, fty, self.val(fty, x), tty)
        if op == 'bin':
            _, _, bop, ty, a, b = v
            return self.bin_expr(bop, ty, self.val(ty, a), self.val(ty, b), (a, b))
        if op == 'icmp':
            _, _, pred, ty, a, b = v
            return self.icmp_expr(pred, ty, self.val(ty, a), self.val(ty, b))
        if op == 'select':
            ops = v[2]
            return '(%s ? %s : %s)' % (self.val(*ops[0]), self.val(*ops[1]), self.val(*ops[2]))
        raise IRError('cexpr: ' + repr(v))

    def fn_id(self, name):
        ids = self.__dict__.setdefault('fn_ids', {})
        if name not in ids:
            ids[name] = 0x10000 + 16 * len(ids)
            self.func_cname(name)     # make sure it is translated
        return ids[name]

    def global_ref(self, name):
        if name in self.m.aliases:
            aty, target = self.m.aliases[name]
            if target[0] == 'global':
                return self.global_ref(target[1])
            return self.cexpr(target)
        if name in self.m.funcs:
            return '(&%s)' % self.func_cname(name)
        if name in self.split_globals:
            # address of the whole object == address of its first field (accesses beyond that field
            # through this pointer leave the C object and are caught by CBMC's pointer checks)
            g = self.m.globals[name]
            r = self.resolve(g.ty)
            self.split_fields.setdefault(name, {})[0] = r[1][0]
            self.ct(r[1][0])
            return '((%s*)&g_%s__f0)' % (self.ct(g.ty), san(name))
        if name in self.m.globals:
            if name not in self.seen_globals:
                self.seen_globals.add(name)
                self.needed_globals.append(name)
            return '(&g_%s)' % san(name)
        raise IRError('unknown global ' + name)

    def func_cname(self, name):
        if name in self.redirect:
            name = self.redirect[name]
            if name not in self.m.funcs:
                raise IRError('redirect target %s not in module' % name)
        f = self.m.funcs[name]
        if f.defined and getattr(self, 'cut_re', None) is not None and self.cut_re.search(name) and name != self.entry:
            if name not in self.extern_stubs:
                self.extern_stubs[name] = f
                self.stats.setdefault('cut', []).append(name)
            return 'x_' + san(name)
        if f.defined:
            if name not in self.seen_funcs:
                self.seen_funcs.add(name)
                self.needed_funcs.append(name)
            return 'f_' + san(name)
        if name in RT_EXTERNALS:
            if name not in self.stats['externals']:
                self.stats['externals'].append(name)
            return RT_EXTERNALS[name]
        # unknown external: stub
        if name not in self.extern_stubs:
            self.extern_stubs[name] = f
        return 'x_' + san(name)

    # ------------------------------------------------------------ expressions
    def mask(self, bits, e):
        sb = self.storage_bits(bits)
        if sb == bits:
            return e
        return '(%s & %s)' % (e, self.int_lit(sb, (1 << bits) - 1))

    def sext_to_storage(self, bits, e):
        """signed C value of an iN held (zero-extended) in its storage type"""
        sb = self.storage_bits(bits)
        st = self.sint_ctype(bits)
        if sb == bits:
            return '((%s)%s)' % (st, e)
        sh = sb - bits
        return '((%s)(((%s)((%s)%s << %d)) >> %d))' % (st, st, self.int_ctype(bits), e, sh, sh)

    def bin_expr(self, op, ty, x, y, raw=None):
        r = self.resolve(ty)
        if r[0] == 'fp':
            cop = {'fadd': '+', 'fsub': '-', 'fmul': '*', 'fdiv': '/'}.get(op)
            if not cop:
                raise IRError('fp op ' + op)
            return '(%s %s %s)' % (x, cop, y)
        if r[0] != 'int':
            raise IRError('binop on ' + repr(r))
        bits = r[1]
        T = self.int_ctype(bits)
        W = 'uint32_t' if bits < 32 else T
        sb = self.storage_bits(bits)
        if op in ('add', 'sub', 'mul', 'and', 'or', 'xor'):
            cop = {'add': '+', 'sub': '-', 'mul': '*', 'and': '&', 'or': '|', 'xor': '^'}[op]
            # pointer difference idiom: sub (ptrtoint a), (ptrtoint b)
            e = '((%s)((%s)%s %s (%s)%s))' % (T, W, x, cop, W, y)
            return self.mask(bits, e)
        if op in ('udiv', 'urem'):
            cop = '/' if op == 'udiv' else '%'
            return '((%s)((%s)%s %s (%s)%s))' % (T, W, x, cop, W, y)
        if op in ('sdiv', 'srem'):
            cop = '/' if op == 'sdiv' else '%'
            e = '((%s)(%s %s %s))' % (T, self.sext_to_storage(bits, x), cop, self.sext_to_storage(bits, y))
            return self.mask(bits, e)
        if op == 'shl':
            e = '((%s)%s < %d ? (%s)((%s)%s << (%s)%s) : (%s)0)' % (W, y, bits, T, W, x, W, y, T)
            return self.mask(bits, '(' + e + ')')
        if op == 'lshr':
            return '((%s)%s < %d ? (%s)((%s)%s >> (%s)%s) : (%s)0)' % (W, y, bits, T, W, x, W, y, T)
        if op == 'ashr':
            sx = self.sext_to_storage(bits, x)
            e = '((%s)%s < %d ? (%s)(%s >> (%s)%s) : (%s)(%s < 0 ? -1 : 0))' % (W, y, bits, T, sx, W, y, T, sx)
            return self.mask(bits, '(' + e + ')')
        raise IRError('binop ' + op)

    def icmp_expr(self, pred, ty, x, y):
        r = self.resolve(ty)
        cop = {'eq': '==', 'ne': '!=', 'ugt': '>', 'uge': '>=', 'ult': '<', 'ule': '<=',
               'sgt': '>', 'sge': '>=', 'slt': '<', 'sle': '<='}[pred]
        if r[0] == 'ptr':
            if pred in ('eq', 'ne'):
                return '((uint8_t)((uint8_t*)%s %s (uint8_t*)%s))' % (x, cop, y)
            return '((uint8_t)((uint8_t*)%s %s (uint8_t*)%s))' % (x, cop, y)
        if r[0] != 'int':
            raise IRError('icmp on ' + repr(r))
        bits = r[1]
        if pred[0] == 's':
            return '((uint8_t)(%s %s %s))' % (self.sext_to_storage(bits, x), cop, self.sext_to_storage(bits, y))
        return '((uint8_t)(%s %s %s))' % (x, cop, y)

    def cast_expr(self, cop, fty, x, tty):
        fr = self.resolve(fty)
        tr = self.resolve(tty)
        T = self.ct(tty)
        if cop == 'bitcast':
            if fr[0] == 'ptr' and tr[0] == 'ptr':
                return '((%s)%s)' % (T, x)
            if fr == tr:
                return x
            raise IRError('bitcast %r -> %r unsupported' % (fr, tr))
        if cop == 'trunc':
            return self.mask(tr[1], '((%s)%s)' % (T, x))
        if cop == 'zext':
            return '((%s)%s)' % (T, x)
        if cop == 'sext':
            e = '((%s)%s)' % (T, self.sext_to_storage(fr[1], x))
            return self.mask(tr[1], e)
        if cop == 'ptrtoint':
            return self.mask(tr[1], '((%s)(uintptr_t)%s)' % (T, x))
        if cop == 'inttoptr':
            return '((%s)(uintptr_t)%s)' % (T, x)
        if cop in ('sitofp',):
            return '((%s)%s)' % (T, self.sext_to_storage(fr[1], x))
        if cop in ('uitofp', 'fpext', 'fptrunc'):
            return '((%s)%s)' % (T, x)
        if cop == 'fptosi':
            return self.mask(tr[1], '((%s)(%s)%s)' % (T, self.sint_ctype(tr[1]), x))
        if cop == 'fptoui':
            return self.mask(tr[1], '((%s)%s)' % (T, x))
        raise IRError('cast ' + cop)

    def gep_expr(self, sty, pty, base, idx):
        """returns (C expression, result type)"""
        if base[0] == 'global' and base[1] in self.split_globals:
            # big global struct split into one C global per top-level field (CBMC's symex degrades on
            # pointer writes into a 250 KB object): @g, 0, k, rest...  ->  @g__fk, 0, rest...
            if not (len(idx) >= 2 and idx[0][1] == ('int', 0) and idx[1][1][0] == 'int'):
                raise IRError('split global %s used with a non-constant field path' % base[1])
            r = self.resolve(sty)
            k = idx[1][1][1]
            fty = r[1][k]
            self.split_fields.setdefault(base[1], {})[k] = fty
            p = '(&g_%s__f%d)' % (san(base[1]), k)
            sty = fty
            idx = [idx[0]] + list(idx[2:])
            self.ct(fty)
        else:
            p = self.val(pty, base)
        cur = sty
        first_ty, first = idx[0]
        e = p
        if not (first[0] == 'int' and first[1] == 0):
            fr = self.resolve(first_ty)
            e = '(%s + %s)' % (p, self.sext_to_storage(fr[1], self.val(first_ty, first)))
        path = ''
        for (ity, iv) in idx[1:]:
            r = self.resolve(cur)
            if r[0] == 'struct':
                if iv[0] != 'int':
                    raise IRError('non-constant struct index')
                path += '.f%d' % iv[1]
                cur = r[1][iv[1]]
            elif r[0] == 'arr':
                ir = self.resolve(ity)
                path += '.e[%s]' % self.sext_to_storage(ir[1], self.val(ity, iv))
                cur = r[2]
            else:
                raise IRError('gep into ' + repr(r))
        self.ct(sty)
        if path:
            return '(&(*%s)%s)' % (e, path), ('ptr', cur)
        return e, ('ptr', cur)

    # ------------------------------------------------------------ functions
    def result_type(self, ins, ltypes):
        a = ins.a
        op = ins.op
        if op in ('add', 'sub', 'mul', 'udiv', 'sdiv', 'urem', 'srem', 'shl', 'lshr', 'ashr', 'and', 'or', 'xor',
                  'fadd', 'fsub', 'fmul', 'fdiv', 'frem', 'fneg', 'select', 'load', 'phi', 'freeze', 'insertvalue', 'atomicrmw'):
            return a['ty']
        if op in ('icmp', 'fcmp'):
            return ('int', 1)
        if op == 'cast':
            return a['tty']
        if op == 'getelementptr':
            cur = a['sty']
            for (ity, iv) in a['idx'][1:]:
                r = self.resolve(cur)
                if r[0] == 'struct':
                    cur = r[1][iv[1]]
                elif r[0] == 'arr':
                    cur = r[2]
                else:
                    raise IRError('gep into ' + repr(r))
            return ('ptr', cur)
        if op == 'alloca':
            return ('ptr', a['ty'])
        if op in ('call', 'invoke'):
            return a['rty']
        if op == 'extractvalue':
            cur = a['ty']
            for i in a['idx']:
                r = self.resolve(cur)
                cur = r[1][i] if r[0] == 'struct' else r[2]
            return cur
        raise IRError('result type of ' + op)

    def emit_call(self, ins, out):
        a = ins.a
        cal = a['callee']
        args = a['args']
        rty = a['rty']
        res = ('v_' + san(ins.res) + ' = ') if ins.res and rty[0] != 'void' else ''
        if cal[0] == 'global':
            name = cal[1]
            hops = 0
            while name in self.m.aliases and self.m.aliases[name][1][0] == 'global' and hops < 8:
                name = self.m.aliases[name][1][1]
                hops += 1
            if name.startswith('@llvm.'):
                self.emit_intrinsic(name, ins, out)
                return
            if name in VP_PRIMS:
                self.emit_prim(name, ins, out)
                return
            if getattr(self, 'printf_model', False) and name in ('@snprintf', '@sprintf', '@fprintf', '@printf') \
                    and not self.m.funcs[name].defined:
                self.emit_printf(name, ins, out)
                return
            if name not in self.redirect and (name in self.noop or (
                    self.noop_re is not None and name in self.m.funcs and not self.m.funcs[name].defined
                    and self.noop_re.search(name))):
                if name not in self.stats['noop']:
                    self.stats['noop'].append(name)
                if res:
                    out.append('%s%s;' % (res, self.zero_of(rty, False)))
                return
            target = self.redirect.get(name, name)
            f = self.m.funcs.get(target)
            if f is None:
                raise IRError('call to unknown function ' + name)
            fn = self.func_cname(name)
            argv = []
            for i, (aty, av, info) in enumerate(args):
                e = self.val(aty, av)
                if 'byval' in info:
                    tmp = 'bv_%d_%d' % (len(out), i)
                    out.append('%s %s = *%s;' % (self.ct(info['byval']), tmp, e))
                    e = '&' + tmp
                elif i < len(f.params) and f.params[i][0] != aty:
                    e = '((%s)%s)' % (self.ct(f.params[i][0]), e)
                argv.append(e)
            call = '%s(%s)' % (fn, ', '.join(argv))
            if res and f.ret != rty:
                call = '((%s)%s)' % (self.ct(rty), call)
            out.append('%s%s;' % (res, call))
            return
        # indirect
        if cal[0] == 'local':
            fp = 'v_' + san(cal[1])
        else:
            fp = self.cexpr(cal)
        fty = a['fty'] or ('func', rty, tuple(x[0] for x in args), False)
        fpt = self.ct(('ptr', fty))
        argv = [self.val(aty, av) for (aty, av, info) in args]
        if cal[0] == 'local' and not fty[3]:
            # the pointer may be an integer-encoded function id (see fn_id): ids live in [0x10000, 0x10000000),
            # real code addresses (CBMC object numbers in the top bits / native text addresses) do not
            key = self.tkey(fty)
            dname = self.short(key, 'vp_dispatch_')
            self.__dict__.setdefault('dispatchers', {})[dname] = fty
            out.append('if ((uintptr_t)%s >= 0x10000ULL && (uintptr_t)%s < 0x10000000ULL) { %s%s(%s); } else { %s((%s)%s)(%s); }'
                       % (fp, fp, res, dname, ', '.join(['(uint64_t)(uintptr_t)' + fp] + argv), res, fpt, fp, ', '.join(argv)))
            return
        out.append('%s((%s)%s)(%s);' % (res, fpt, fp, ', '.join(argv)))

    def cast_src(self, v):
        """if v is (a bitcast of) a pointer to an aggregate, return (pointee type, C expr)"""
        if v[0] == 'local':
            return self.cur_bitcasts.get(v[1])
        if v[0] == 'cexpr' and v[1] == 'cast' and v[2] == 'bitcast' and v[3][0] == 'ptr':
            return (v[3][1], self.val(v[3], v[4]))
        return None

    def const_str_arg(self, aty, av):
        """if av is a pointer to a constant string global, return the python string"""
        v = av
        if v[0] == 'cexpr' and v[1] == 'gep':
            v = v[4]
        if v[0] == 'global' and v[1] in self.m.globals:
            g = self.m.globals[v[1]]
            if g.init and g.init[0] == 'cstr':
                return g.init[1].rstrip(b'\0').decode('latin1')
        return None

    def emit_prim(self, name, ins, out):
        args = ins.a['args']
        res = ('v_' + san(ins.res)) if ins.res else None
        if name == '@vp_nondet':
            out.append('%s = vp_nondet();' % res if res else 'vp_nondet();')
            return
        if name == '@vp_range':
            call = 'vp_range(%s, %s);' % (self.val(args[0][0], args[0][1]), self.val(args[1][0], args[1][1]))
            out.append(('%s = ' % res if res else '') + call)
            return

        def msg(i):
            s = self.const_str_arg(args[i][0], args[i][1])
            if s is None:
                raise IRError('vp primitive needs a constant string: ' + ins.text[:120])
            return json.dumps(s)
        if name == '@vp_assume':
            out.append('VP_ASSUME(%s);' % self.val(args[0][0], args[0][1]))
        elif name == '@vp_assert':
            out.append('VP_ASSERT(%s, %s);' % (self.val(args[0][0], args[0][1]), msg(1)))
        elif name == '@vp_witness':
            out.append('VP_WITNESS(%s);' % msg(0))
        elif name == '@vp_observe':
            out.append('VP_OBSERVE(%s, %s);' % (msg(0), self.val(args[1][0], args[1][1])))
        elif name == '@vp_capacity':
            out.append('VP_CAPACITY(%s);' % msg(0))
        elif name == '@vp_abort':
            out.append('VP_ABORT(%s);' % msg(0))
        elif name == '@vp_unmodelled':
            out.append('VP_UNMODELLED(%s);' % msg(0))
        elif name == '@vp_stop':
            out.append('VP_STOP();')

    def emit_printf(self, name, ins, out):
        """printf family with a constant format: expanded at translation time into calls of the
        formatter model the harness defines (vp_fmt_*). Any conversion outside the supported set
        is an IRError (the check is then inconclusive, never silently wrong)."""
        args = ins.a['args']
        res = ('v_' + san(ins.res)) if ins.res else None

        def A(i):
            return self.val(args[i][0], args[i][1])
        if name == '@snprintf':
            out.append('%s((uint8_t*)%s, (uint64_t)%s);' % (self.func_cname('@vp_fmt_open_buf'), A(0), A(1)))
            fi = 2
        elif name == '@sprintf':
            out.append('%s((uint8_t*)%s, (uint64_t)0xffffffffULL);' % (self.func_cname('@vp_fmt_open_buf'), A(0)))
            fi = 1
        elif name == '@fprintf':
            out.append('%s((uint8_t*)%s);' % (self.func_cname('@vp_fmt_open_file'), A(0)))
            fi = 1
        else:
            out.append('%s((uint8_t*)0);' % self.func_cname('@vp_fmt_open_file'))
            fi = 0
        fmt = self.const_str_arg(args[fi][0], args[fi][1])
        if fmt is None:
            raise IRError('printf-family call with a non-constant format: ' + ins.text[:120])
        ai = fi + 1
        pos = 0
        lit = ''

        def flush():
            nonlocal lit
            if lit:
                out.append('%s((uint8_t*)%s);' % (self.func_cname('@vp_fmt_str'), json.dumps(lit)))
                lit = ''
        for m in re.finditer(r'%(%|(?P<flags>[0-]*)(?P<width>\d+|\*)?(?:\.(?P<prec>\d+|\*))?(?P<len>l|ll|z|h|hh)?(?P<conv>[sdiuxXc]))', fmt):
            lit += fmt[pos:m.start()]
            pos = m.end()
            if m.group(1) == '%':
                lit += '%'
                continue
            flush()
            conv = m.group('conv')
            width = m.group('width') or '0'
            if width == '*':
                width = '(int32_t)' + A(ai)
                ai += 1
            zero = '1' if '0' in (m.group('flags') or '') else '0'
            if '-' in (m.group('flags') or ''):
                raise IRError('printf flag - unsupported: ' + fmt)
            if conv == 's':
                if m.group('prec') == '*':
                    n = '(int32_t)' + A(ai)
                    ai += 1
                elif m.group('prec'):
                    n = m.group('prec')
                else:
                    n = '-1'
                out.append('%s((uint8_t*)%s, (uint32_t)(%s), (uint32_t)(%s));' % (self.func_cname('@vp_fmt_strn'), A(ai), n, width))
                ai += 1
            elif conv == 'c':
                out.append('%s((uint32_t)%s);' % (self.func_cname('@vp_fmt_char'), A(ai)))
                ai += 1
            else:
                aty = self.resolve(args[ai][0])
                v = A(ai)
                if conv in 'di':
                    v = '(uint64_t)(int64_t)' + self.sext_to_storage(aty[1], v)
                    sg = '1'
                else:
                    v = '(uint64_t)' + v
                    sg = '0'
                base = '16' if conv in 'xX' else '10'
                out.append('%s(%s, (uint32_t)%s, (uint32_t)(%s), (uint32_t)%s, (uint32_t)%s);'
                           % (self.func_cname('@vp_fmt_int'), v, sg, width, zero, base))
                ai += 1
        lit += fmt[pos:]
        if '%' in re.sub(r'%(%|[0-]*(\d+|\*)?(?:\.(\d+|\*))?(l|ll|z|h|hh)?[sdiuxXc])', '', fmt):
            raise IRError('unsupported printf conversion in ' + repr(fmt))
        flush()
        out.append('%s%s();' % ((res + ' = ') if res else '', self.func_cname('@vp_fmt_close')))

    def emit_intrinsic(self, name, ins, out):
        a = ins.a
        args = a['args']
        rty = a['rty']
        res = ('v_' + san(ins.res)) if ins.res else None
        base = name[len('@llvm.'):]

        def A(i):
            return self.val(args[i][0], args[i][1])
        if base.startswith(('lifetime.', 'dbg.', 'invariant.', 'experimental.noalias', 'assume', 'prefetch',
                            'stackrestore', 'var.annotation', 'donothing')):
            return
        if base.startswith('memcpy.') or base.startswith('memmove.'):
            fn = 'vp_memcpy' if base.startswith('memcpy') else 'vp_memmove'
            d0 = self.cast_src(args[0][1])
            s0 = self.cast_src(args[1][1])
            if d0 and s0 and d0[0] == s0[0] and args[2][1][0] == 'int' and self.is_agg(d0[0]) \
                    and self.size_of(d0[0]) == args[2][1][1]:
                out.append('*%s = *%s;' % (d0[1], s0[1]))
                return
            out.append('%s((uint8_t*)%s, (uint8_t*)%s, (uint64_t)%s);' % (fn, A(0), A(1), A(2)))
            return
        if base.startswith('memset.'):
            d0 = self.cast_src(args[0][1])
            if d0 and args[1][1] == ('int', 0) and args[2][1][0] == 'int' and self.is_agg(d0[0]) \
                    and self.size_of(d0[0]) == args[2][1][1]:
                out.append('*%s = %s;' % (d0[1], self.zero_of(d0[0], False)))
                return
            out.append('vp_memset((uint8_t*)%s, (int)%s, (uint64_t)%s);' % (A(0), A(1), A(2)))
            return
        if base.startswith('expect.'):
            out.append('%s = %s;' % (res, A(0)))
            return
        if base == 'trap' or base == 'debugtrap':
            out.append('VP_ABORT("llvm.trap");')
            return
        if base.startswith('objectsize.'):
            out.append('%s = %s;' % (res, self.int_lit(self.resolve(rty)[1], -1)))
            return
        if base == 'stacksave':
            out.append('%s = (uint8_t*)0;' % res)
            return
        m = re.match(r'(umax|umin|smax|smin)\.i(\d+)', base)
        if m:
            bits = int(m.group(2))
            x, y = A(0), A(1)
            if m.group(1)[0] == 's':
                cx, cy = self.sext_to_storage(bits, x), self.sext_to_storage(bits, y)
            else:
                cx, cy = x, y
            cmpop = '>' if m.group(1).endswith('max') else '<'
            out.append('%s = (%s %s %s) ? %s : %s;' % (res, cx, cmpop, cy, x, y))
            return
        m = re.match(r'abs\.i(\d+)', base)
        if m:
            bits = int(m.group(1))
            sx = self.sext_to_storage(bits, A(0))
            out.append('%s = %s;' % (res, self.mask(bits, '((%s)(%s < 0 ? -%s : %s))' % (self.int_ctype(bits), sx, sx, sx))))
            return
        m = re.match(r'(uadd|usub|umul|sadd|ssub|smul)\.with\.overflow\.i(\d+)', base)
        if m:
            bits = int(m.group(2))
            if bits not in (8, 16, 32, 64):
                raise IRError('overflow intrinsic width')
            kind = m.group(1)
            T = self.sint_ctype(bits) if kind[0] == 's' else self.int_ctype(bits)
            bop = {'add': 'add', 'sub': 'sub', 'mul': 'mul'}[kind[1:]]
            self.ct(rty)
            tmp = 'ov_%d' % len(out)
            out.append('{ %s %s; uint8_t %s_o = (uint8_t)__builtin_%s_overflow((%s)%s, (%s)%s, &%s); %s.f0 = (%s)%s; %s.f1 = %s_o; }'
                       % (T, tmp, tmp, bop, T, A(0), T, A(1), tmp, res, self.int_ctype(bits), tmp, res, tmp))
            return
        m = re.match(r'(ctlz|cttz|ctpop|bswap)\.i(\d+)', base)
        if m:
            out.append('%s = vp_%s%s(%s);' % (res, m.group(1), m.group(2), A(0)))
            return
        m = re.match(r'(fshl|fshr)\.i(\d+)', base)
        if m:
            bits = int(m.group(2))
            T = self.int_ctype(bits)
            x, y, z = A(0), A(1), A(2)
            sh = '((unsigned)%s %% %d)' % (z, bits)
            if m.group(1) == 'fshl':
                out.append('%s = (%s == 0) ? %s : (%s)(((%s)%s << %s) | ((%s)%s >> (%d - %s)));' % (res, sh, x, T, T, x, sh, T, y, bits, sh))
            else:
                out.append('%s = (%s == 0) ? %s : (%s)(((%s)%s << (%d - %s)) | ((%s)%s >> %s));' % (res, sh, y, T, T, x, bits, sh, T, y, sh))
            return
        if base.startswith('va_start') or base.startswith('va_end') or base.startswith('va_copy'):
            raise IRError('variadic function bodies are not translated (cut or stub the function %s): ' % getattr(self, 'cur_func', '?') + ins.text[:100])
        raise IRError('unsupported intrinsic ' + name)

    def emit_function(self, name):
        f = self.m.funcs[name]
        self.cur_func = name
        cname = 'f_' + san(name)
        entry_label = str(sum(1 for (pty, pn, info) in f.params if pn is None or re.fullmatch(r'%\d+', pn)))
        # parse instructions
        blocks = []
        for (label, lines) in f.blocks:
            insts = [parse_inst(t) for t in lines]
            blocks.append((label if label is not None else entry_label, insts))
        self.stats['insts'] += sum(len(b[1]) for b in blocks)
        # param names
        params = []
        k = 0
        ltypes = {}
        for (pty, pn, info) in f.params:
            if pn is None:
                pn = '%%%d' % k
            if re.fullmatch(r'%\d+', pn):
                k += 1
            params.append((pty, pn))
            ltypes[pn] = pty
        decls = []
        self.cur_bitcasts = {}
        self.cur_inttoptr = {}
        phis = {}   # block label -> [(res, ty, inc)]
        for (label, insts) in blocks:
            for ins in insts:
                if ins.res is not None and ins.op != 'alloca':
                    rt = self.result_type(ins, ltypes)
                    if rt[0] == 'void':
                        continue
                    ltypes[ins.res] = rt
                    decls.append('%s v_%s;' % (self.ct(rt), san(ins.res)))
                    if ins.op == 'phi':
                        decls.append('%s v_%s__in;' % (self.ct(rt), san(ins.res)))
                        phis.setdefault(label, []).append(ins)
                elif ins.op == 'alloca':
                    ty = ins.a['ty']
                    cnt = ins.a['cnt']
                    n = san(ins.res)
                    if cnt is None or (cnt[0] == 'int' and cnt[1] == 1):
                        decls.append('%s v_%s__s; %s v_%s = &v_%s__s;' % (self.ct(ty), n, self.ct(('ptr', ty)), n, n))
                    elif cnt[0] == 'int':
                        decls.append('%s v_%s__s[%d]; %s v_%s = &v_%s__s[0];' % (self.ct(ty), n, cnt[1], self.ct(('ptr', ty)), n, n))
                    else:
                        raise IRError('dynamic alloca in ' + name)
                    ltypes[ins.res] = ('ptr', ty)
        body = []

        def edge(frm, to):
            out = []
            for ins in phis.get(to, []):
                for (v, lbl) in ins.a['inc']:
                    if lbl.lstrip('%') == frm or san(lbl) == san(frm):
                        out.append('v_%s__in = %s;' % (san(ins.res), self.val(ins.a['ty'], v)))
                        break
                else:
                    raise IRError('phi without incoming for edge %s->%s in %s' % (frm, to, name))
            out.append('goto L_%s;' % san(to))
            return ' '.join(out)
        for (label, insts) in blocks:
            body.append('L_%s:;' % san(label))
            for ins in phis.get(label, []):
                body.append('v_%s = v_%s__in;' % (san(ins.res), san(ins.res)))
            for ins in insts:
                op = ins.op
                a = ins.a
                r = ('v_' + san(ins.res)) if ins.res else None
                if op == 'phi' or op == 'alloca':
                    continue
                if op in ('add', 'sub', 'mul', 'udiv', 'sdiv', 'urem', 'srem', 'shl', 'lshr', 'ashr', 'and', 'or', 'xor',
                          'fadd', 'fsub', 'fmul', 'fdiv'):
                    # pointer-difference idiom
                    body.append('%s = %s;' % (r, self.bin_expr(op, a['ty'], self.val(a['ty'], a['x']), self.val(a['ty'], a['y']))))
                elif op == 'icmp':
                    body.append('%s = %s;' % (r, self.icmp_expr(a['pred'], a['ty'], self.val(a['ty'], a['x']), self.val(a['ty'], a['y']))))
                elif op == 'fcmp':
                    cop = {'oeq': '==', 'one': '!=', 'ogt': '>', 'oge': '>=', 'olt': '<', 'ole': '<=',
                           'ueq': '==', 'une': '!=', 'ugt': '>', 'uge': '>=', 'ult': '<', 'ule': '<='}.get(a['pred'])
                    if cop is None:
                        raise IRError('fcmp ' + a['pred'])
                    body.append('%s = (uint8_t)(%s %s %s);' % (r, self.val(a['ty'], a['x']), cop, self.val(a['ty'], a['y'])))
                elif op == 'cast':
                    if a['cast'] == 'inttoptr' and self.resolve(a['tty'])[0] == 'ptr' and self.resolve(a['tty'])[1][0] == 'func':
                        self.cur_inttoptr[ins.res] = '(uint64_t)' + self.val(a['fty'], a['x'])
                    if a['cast'] == 'bitcast' and a['fty'][0] == 'ptr' and a['x'][0] in ('local', 'global'):
                        self.cur_bitcasts[ins.res] = (a['fty'][1], self.val(a['fty'], a['x']))
                    body.append('%s = %s;' % (r, self.cast_expr(a['cast'], a['fty'], self.val(a['fty'], a['x']), a['tty'])))
                elif op == 'select':
                    body.append('%s = %s ? %s : %s;' % (r, self.val(a['cty'], a['c']), self.val(a['ty'], a['x']), self.val(a['ty'], a['y'])))
                elif op == 'freeze':
                    body.append('%s = %s;' % (r, self.val(a['ty'], a['x'])))
                elif op == 'load':
                    body.append('%s = *%s;' % (r, self.val(a['pty'], a['p'])))
                elif op == 'store':
                    body.append('*%s = %s;' % (self.val(a['pty'], a['p']), self.val(a['ty'], a['x'])))
                elif op == 'fence':
                    pass
                elif op == 'atomicrmw':
                    pe = self.val(a['pty'], a['p'])
                    xe = self.val(a['ty'], a['x'])
                    if a['aop'] == 'xchg':
                        newv = xe
                    elif a['aop'] in ('add', 'sub', 'and', 'or', 'xor'):
                        newv = self.bin_expr(a['aop'], a['ty'], '(*%s)' % pe, xe)
                    else:
                        raise IRError('atomicrmw ' + a['aop'])
                    body.append('%s = *%s; *%s = %s;' % (r, pe, pe, newv.replace('(*%s)' % pe, r)))
                elif op == 'getelementptr':
                    e, rt = self.gep_expr(a['sty'], a['pty'], a['p'], a['idx'])
                    body.append('%s = %s;' % (r, e))
                elif op in ('call',):
                    self.emit_call(ins, body)
                elif op == 'ret':
                    if a['x'] is None:
                        body.append('return;')
                    else:
                        body.append('return %s;' % self.val(a['ty'], a['x']))
                elif op == 'br':
                    if a['cond'] is None:
                        body.append(edge(label, a['t'].lstrip('%')))
                    else:
                        body.append('if (%s) { %s } else { %s }' % (self.val(('int', 1), a['cond']),
                                                                    edge(label, a['t'].lstrip('%')), edge(label, a['f'].lstrip('%'))))
                elif op == 'switch':
                    x = self.val(a['ty'], a['x'])
                    s = 'switch (%s) {' % x
                    for (cv, lbl) in a['cases']:
                        s += ' case %s: { %s }' % (self.val(a['ty'], cv), edge(label, lbl.lstrip('%')))
                    s += ' default: { %s } }' % edge(label, a['default'].lstrip('%'))
                    body.append(s)
                elif op == 'unreachable':
                    body.append('VP_UNREACHABLE();')
                elif op == 'extractvalue':
                    body.append('%s = %s%s;' % (r, self.val(a['ty'], a['x']), self.agg_path(a['ty'], a['idx'])))
                elif op == 'insertvalue':
                    body.append('%s = %s; %s%s = %s;' % (r, self.val(a['ty'], a['x']), r, self.agg_path(a['ty'], a['idx']),
                                                         self.val(a['ety'], a['e'])))
                else:
                    raise IRError('cannot translate %s in %s: %s' % (op, name, ins.text[:160]))
        ps = ', '.join('%s v_%s' % (self.ct(pty), san(pn)) for (pty, pn) in params)
        if f.vararg:
            ps += ', ...'   # body may not use va_start (emit_intrinsic rejects it)
        hdr = 'static %s %s(%s)' % (self.ct(f.ret), cname, ps or 'void')
        self.stats['functions'].append(name)
        return hdr, hdr + '\n{\n  ' + '\n  '.join(decls) + '\n  ' + '\n  '.join(body) + '\n}\n'

    def agg_path(self, ty, idx):
        cur = ty
        path = ''
        for i in idx:
            r = self.resolve(cur)
            if r[0] == 'struct':
                path += '.f%d' % i
                cur = r[1][i]
            else:
                path += '.e[%d]' % i
                cur = r[2]
        return path

    # ------------------------------------------------------------ module
    def run(self):
        m = self.m
        if self.entry not in m.funcs or not m.funcs[self.entry].defined:
            raise IRError('entry %s not defined' % self.entry)
        roots = [c for c in m.ctors] + [self.entry]
        for r in roots:
            self.func_cname(r)
        protos = []
        bodies = []
        gdefs = []
        done_g = 0
        done_f = 0
        while done_f < len(self.needed_funcs) or done_g < len(self.needed_globals):
            while done_f < len(self.needed_funcs):
                n = self.needed_funcs[done_f]
                done_f += 1
                hdr, body = self.emit_function(n)
                protos.append(hdr + ';')
                bodies.append(body)
            while done_g < len(self.needed_globals):
                n = self.needed_globals[done_g]
                done_g += 1
                g = m.globals[n]
                cn = 'g_' + san(n)
                if g.external or g.init is None:
                    self.stats['ext_globals'].append(n)
                    gdefs.append((cn, self.ct(g.ty), None))
                else:
                    gdefs.append((cn, self.ct(g.ty), self.val(g.ty, g.init, True)))
        # dispatchers for calls through integer-encoded function pointers (after all ids are known)
        disp_protos = []
        disp_bodies = []
        for dname, fty in sorted(getattr(self, 'dispatchers', {}).items()):
            ret = self.ct(fty[1])
            ps = ['uint64_t id'] + ['%s a%d' % (self.ct(p), i) for i, p in enumerate(fty[2])]
            hdr = 'static %s %s(%s)' % (ret, dname, ', '.join(ps))
            disp_protos.append(hdr + ';')
            b = [hdr, '{', '  switch (id) {']
            for fname, fid in sorted(getattr(self, 'fn_ids', {}).items(), key=lambda kv: kv[1]):
                f = m.funcs[fname]
                if not f.defined or len(f.params) != len(fty[2]) or self.tkey(f.ret) != self.tkey(fty[1]):
                    continue
                if any(self.tkey(pp[0]) != self.tkey(q) for pp, q in zip(f.params, fty[2])):
                    continue
                call = 'f_%s(%s)' % (san(fname), ', '.join('a%d' % i for i in range(len(fty[2]))))
                b.append('    case %dULL: %s' % (fid, ('return %s;' % call) if fty[1][0] != 'void' else (call + '; return;')))
            b.append('    default: break;')
            b.append('  }')
            b.append('  VP_UNMODELLED("indirect call through an unknown function id");')
            if fty[1][0] != 'void':
                b.append('  { %s r = %s; return r; }' % (ret, self.zero_of(fty[1], True) if self.is_agg(fty[1]) else '0'))
            b.append('}')
            disp_bodies.append('\n'.join(b))
        # extern stubs
        stubs = []
        for name, f in self.extern_stubs.items():
            self.stats['unmodelled'].append(name)
            ps = [self.ct(p[0]) for p in f.params]
            if f.vararg:
                ps.append('...')
            ret = self.ct(f.ret)
            s = 'static %s x_%s(%s) { VP_UNMODELLED(%s);' % (ret, san(name), ', '.join(ps) or 'void', json.dumps(name[1:]))
            if f.ret[0] != 'void':
                s += ' %s r = %s; return r;' % (ret, self.zero_of(f.ret, True) if self.is_agg(f.ret) else '0')
            s += ' }'
            stubs.append(s)
        # type definitions in dependency order
        tdefs = []
        emitted = set()
        visiting = set()

        def tag_of(ty):
            k = ty[0]
            if k == 'named':
                d = m.types.get(ty[1])
                if d is None or d == ('opaque',):
                    return None
                return self.struct_names[ty[1]]
            if k == 'struct':
                return self.lit_structs[self.tkey(ty)]
            if k == 'arr':
                return self.arr_structs[self.tkey(ty)]
            return None

        def emit_tag(tag):
            if tag in emitted:
                return
            if tag in visiting:
                raise IRError('recursive by-value type ' + tag)
            visiting.add(tag)
            d = self.agg_defs[tag]
            if d[0] == 'struct':
                fields = d[1]
                for f in fields:
                    t = tag_of(f)
                    if t:
                        emit_tag(t)
                body = ' '.join('%s f%d;' % (self.ct(f), i) for i, f in enumerate(fields))
                if not fields:
                    body = 'uint8_t vp_empty;'
                tdefs.append('struct %s { %s }%s;' % (tag, body, ' __attribute__((packed))' if d[2] else ''))
            else:
                t = tag_of(d[2])
                if t:
                    emit_tag(t)
                n = d[1]
                tdefs.append('struct %s { %s e[%d]; };' % (tag, self.ct(d[2]), n if n > 0 else 1))
            visiting.discard(tag)
            emitted.add(tag)
        # self.ct() calls above may add new defs while iterating: loop to fixpoint
        while True:
            pending = [t for t in self.agg_defs if t not in emitted]
            if not pending:
                break
            for t in pending:
                emit_tag(t)
        fwd = ['struct %s;' % t for t in sorted(set(self.struct_names.values()) | set(self.agg_defs.keys()))]
        out = []
        out.append('/* generated by ir2c.py - do not edit */')
        out.append('#include "vp_rt.h"')
        out += fwd
        out += getattr(self, 'fn_typedef_defs', [])
        out += tdefs
        out += protos
        out += disp_protos
        out += stubs
        for gname, fields in sorted(self.split_fields.items()):
            g = m.globals[gname]
            for k, fty in sorted(fields.items()):
                init = None
                if g.init is not None and g.init[0] == 'agg':
                    et, ev = g.init[2][k]
                    init = self.val(et, ev, True)
                elif g.init is not None and g.init[0] not in ('zero', 'undef'):
                    raise IRError('split global %s has an unsupported initialiser' % gname)
                gdefs.append(('g_%s__f%d' % (san(gname), k), self.ct(fty), init))
            if g.external or g.init is None:
                self.stats['ext_globals'].append(gname)
        for (cn, ct, init) in gdefs:
            out.append('static %s %s;' % (ct, cn))
        for (cn, ct, init) in gdefs:
            if init is not None:
                out.append('static %s %s = %s;' % (ct, cn, init))
        out += bodies
        out += disp_bodies
        out.append('int main(void)\n{')
        out.append('  vp_rt_init();')
        for c in m.ctors:
            out.append('  %s();' % self.func_cname(c))
        out.append('  %s();' % self.func_cname(self.entry))
        out.append('  vp_rt_fini();')
        out.append('  return 0;\n}')
        return '\n'.join(out) + '\n'


def main():
    import argparse
    ap = argparse.ArgumentParser()
    ap.add_argument('inp')
    ap.add_argument('out')
    ap.add_argument('--entry', required=True)
    ap.add_argument('--redirect', action='append', default=[])
    ap.add_argument('--noop', action='append', default=[])
    ap.add_argument('--stats')
    ap.add_argument('--noop-re')
    ap.add_argument('--split-global', action='append', default=[])
    ap.add_argument('--printf-model', action='store_true')
    ap.add_argument('--cut-re', help='defined functions whose name matches are NOT translated: they become flagged stubs')
    ap.add_argument('--keep', action='append', default=[])
    a = ap.parse_args()
    try:
        mod = parse_module(open(a.inp).read())
        red = {}
        for r in a.redirect:
            x, y = r.split('=')
            red['@' + x] = '@' + y
        em = Emitter(mod, '@' + a.entry, red, ['@' + n for n in a.noop], a.noop_re)
        em.split_globals = set('@' + g for g in a.split_global if ('@' + g) in mod.globals)
        em.printf_model = a.printf_model
        em.cut_re = re.compile(a.cut_re) if a.cut_re else None
        code = em.run()
    except IRError as e:
        sys.stderr.write('ir2c: UNSUPPORTED: %s\n' % e)
        sys.exit(3)
    open(a.out, 'w').write(code)
    if a.stats:
        json.dump(em.stats, open(a.stats, 'w'), indent=1)


if __name__ == '__main__':
    main()
