"""UNI-*: the codec (src/unicode.cpp). Properties C09 (primary), C06 (memory safety)."""


def rt_instances(tier):
    ns = [1, 2, 3, 4] if tier == 'quick' else [1, 2, 3, 4, 5, 6, 7, 8]
    out = []
    for n in ns:
        out.append(dict(name='n%d' % n, bound='all byte strings of length %d' % n, unwind=n + 2,
                        defs=dict(N=n, VP_CAP_U8=max(8, n + 3), VP_CAP_INT=max(4, n + 1)),
                        vectors=[[0x41] * n, [0xC1, 0x81] + [0x41] * (n - 2), [0xE0, 0x80, 0xAF, 0x41, 0x41, 0x41, 0x41, 0x41][:n],
                                 [0xFF, 0xFE, 0x41, 0, 0x42, 0, 0x43, 0][:n], [0, 0x41, 0, 0x42, 0, 0x43, 0, 0x44][:n],
                                 [0xEF, 0xBB, 0xBF, 0xC3, 0xA9, 0x41, 0x41, 0x41][:n]]))
    return out


def comm_instances(tier):
    names = ['utf8', 'utf8bom', 'utf16le', 'utf16be']
    combos = [(1, s) for s in range(4)] + [(2, 0), (2, 2)]
    if tier == 'thorough':
        combos = [(k, s) for k in (1, 2) for s in range(4)] + [(3, 0), (3, 3)]
    return [dict(name='k%d-%s' % (k, names[s]),
                 bound='all sequences of %d non-NUL scalar values, source %s, all 4 target encodings' % (k, names[s]),
                 unwind=4 * k + 5, defs=dict(K=k, SRCENC=s, VP_CAP_U8=4 * k + 4, VP_CAP_INT=k + 2)) for (k, s) in combos]


OBLIGATIONS = [
    dict(id='UNI-RT', harness='uni.cpp', entry='vp_uni_rt', instances=rt_instances,
         assumptions=['BOM policy of the caller fixed to the default options here (all option values: UNI-POLICY)',
                      'cpd.fout is null: bytes are observed through cpd.bout (write_byte feeds both sinks identically)']),
    dict(id='UNI-ENC8', harness='uni.cpp', entry='vp_uni_enc8',
         instances=lambda tier: [dict(name='all', bound='every code point in [0,2^31)', unwind=8, defs=dict(VP_CAP_U8=8, VP_CAP_INT=4)),
                                 dict(name='all-b', bound='every code point in [0,2^31), second capacity setting', unwind=9,
                                      defs=dict(VP_CAP_U8=12, VP_CAP_INT=3))][:2 if tier == 'thorough' else 1]),
    dict(id='UNI-ENC16', harness='uni.cpp', entry='vp_uni_enc16',
         instances=lambda tier: [dict(name='all', bound='every code point in [0,2^31) x {LE,BE}', unwind=8, defs=dict(VP_CAP_U8=8, VP_CAP_INT=4))]),
    dict(id='UNI-COMM', harness='uni.cpp', entry='vp_uni_comm', instances=comm_instances),
]

PROPERTIES = {
    'C06': dict(obligations=['UNI-RT']),
    'C09': dict(obligations=['UNI-RT', 'UNI-ENC8', 'UNI-ENC16', 'UNI-COMM'],
                not_decided='that the passes between tokenizer and output never edit code points inside chunk texts; '
                            'UncText::c_str (log text only)'),
}
