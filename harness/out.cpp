/* OUT-* obligations: the character writer of src/output.cpp (add_char, add_spaces,
 * add_text, output_to_column) together with write_char/write_string (unicode.cpp),
 * next_tab_column (prototypes.h) and UncText (unc_text.cpp). All inputs symbolic.
 * Owners: C08 (line endings), C17 (whitespace hygiene), C05 (column round trip),
 * C18 (realisation of an indent column). */
#include "/repo/src/output.cpp"
#include "vp_opts.h"
VP_ZERO_GLOBAL(cp_data_t, cpd);

#ifndef N
#define N 3
#endif
#ifndef TABMAX
#define TABMAX 8
#endif
#ifndef COLMAX
#define COLMAX 24
#endif

/* Output sink. Reference (g++) build: the real write_char() -> cpd.bout. Solver build: the engine
 * redirects write_char(int) to vp_sink_char(), a plain byte recorder (the writer itself is decided by
 * the UNI-* obligations of C09; here it is environment and ~10x cheaper to encode). */
static std::deque<UINT8> g_out;
#ifdef VP_REAL_STL
static size_t out_size() { return g_out.size(); }
static UINT8 out_at(size_t i) { return g_out[i]; }
static void out_clear() { g_out.clear(); }
#else
static UINT8  vp_sink[VP_CAP_U8];
static size_t vp_sink_n;
extern "C" __attribute__((noinline)) void vp_sink_char(int ch)
{
   if (vp_sink_n >= VP_CAP_U8) { vp_capacity("output sink"); return; }
   vp_sink[vp_sink_n++] = (UINT8)ch;
}
static size_t out_size() { return vp_sink_n; }
static UINT8 out_at(size_t i) { if (i >= vp_sink_n) { vp_abort("sink index"); } return vp_sink[i]; }
static void out_clear() { vp_sink_n = 0; }
#endif
struct out_copy
{
   UINT8  b[VP_CAP_U8];
   size_t n;
   void take() { n = out_size(); for (size_t i = 0; i < n && i < VP_CAP_U8; i++) { b[i] = out_at(i); } }
   size_t size() const { return n; }
   UINT8 operator[](size_t i) const { return b[i < VP_CAP_U8 ? i : 0]; }
};

static void vp_out_setup()
{
   vp_havoc_options();
#ifdef TS
   /* tab size concrete per instance (sizes concrete, contents symbolic: a symbolic divisor makes every
    * next_tab_column() a 64-bit divider circuit); the instances enumerate the tab sizes */
   vp::set(options::output_tab_size, TS);
#else
   /* stated bound on the tab size (loops run tab-size times) */
   vp_assume(options::output_tab_size() <= TABMAX);
#endif
   numbering_status = false;               /* html line numbering is a debug aid: off */
   cpd.bout         = &g_out;
   cpd.fout         = nullptr;
   cpd.enc          = char_encoding_e::e_ASCII;
   cpd.bom          = false;
   unsigned nl = (unsigned)vp_range(0, 2);
   /* three concrete assignments (a symbolic string pointer would make UncText::set explore every length) */
   if (nl == 0) { cpd.newline = "\n"; }
   else if (nl == 1) { cpd.newline = "\r\n"; }
   else { cpd.newline = "\r"; }
#ifdef TRAILSPACE
   cpd.output_trailspace   = (TRAILSPACE != 0);   /* mode concrete per instance: it gates the blank-buffer loops */
#else
   cpd.output_trailspace   = vp_bool();
#endif
   cpd.output_tab_as_space = vp_bool();
   cpd.in_preproc          = vp_bool() ? CT_PREPROC : CT_NONE;
   cpd.column      = 1;
   cpd.spaces      = 0;
   cpd.did_newline = true;
   cpd.last_char   = '\n';
}

/* display width, written independently of calc_next_tab_column() */
static size_t ref_next_tab(size_t col, size_t ts) { return ((col - 1) / ts + 1) * ts + 1; }
static size_t ref_col_of_last_line(const out_copy &o, size_t from, size_t upto, size_t ts)
{
   size_t col = 1;
   for (size_t i = from; i < upto; i++)
   {
      if (o[i] == '\n' || o[i] == '\r') { col = 1; }
      else if (o[i] == '\t') { col = ref_next_tab(col, ts); }
      else { col++; }
   }
   return col;
}

/* OUT-CHAR --------------------------------------------------------------------------
 * abstract text: N elements, each a line break or an ASCII character, then 'x'.
 * run A renders every break with terminator style sa[i], run B with sb[i]
 * (0 = LF, 1 = CR LF, 2 = CR): the "arbitrary mixture" of the C08 quantifier. */
static void render(const int *el, const unsigned *st, bool lit)
{
   for (int i = 0; i < N; i++)
   {
      if (el[i] < 0)
      {
         if (st[i] != 0) { add_char('\r', lit); }
         if (st[i] != 2) { add_char('\n', lit); }
      }
      else
      {
         add_char((UINT32)el[i], lit);
      }
   }
   add_char('x', lit);
}

extern "C" void vp_out_char()
{
   vp_out_setup();
   int      el[N];
   unsigned sa[N], sb[N];
   int      neol = 0;
   bool     lit  = vp_bool();
   for (int i = 0; i < N; i++)
   {
      if (vp_bool()) { el[i] = -1; neol++; }
      else
      {
         el[i] = (int)vp_range(1, 0x7e);
         vp_assume(el[i] != '\n' && el[i] != '\r');
      }
      sa[i] = (unsigned)vp_range(0, 2);
      sb[i] = (unsigned)vp_range(0, 2);
      /* callers never emit a blank directly in front of a line break unless trailing
       * blanks are being preserved (output_text writes blanks only in front of a chunk;
       * literal multi-line strings are written with output_trailspace on) */
      if (el[i] < 0 && i > 0 && !cpd.output_trailspace) { vp_assume(el[i - 1] != ' ' && el[i - 1] != '\t'); }
      /* a break written as a bare CR directly followed by a break written as a bare LF *is* one CR LF break */
      if (el[i] < 0 && i > 0 && el[i - 1] < 0) { vp_assume(!(sa[i - 1] == 2 && sa[i] == 0) && !(sb[i - 1] == 2 && sb[i] == 0)); }
   }
   size_t ts  = options::output_tab_size();
   size_t nll = cpd.newline.size();
   UINT8  nl0 = (UINT8)cpd.newline[0];
   UINT8  nl1 = (UINT8)cpd.newline[1];          /* 0 when the terminator is one byte */
   /* ---- run A */
   render(el, sa, lit);
   out_copy a;
   a.take();
   size_t colA = cpd.column, spA = cpd.spaces;
   /* (a)+(b): the CR/LF bytes of the output are exactly neol complete terminators
    * (single pass, no nested loop: `skip` marks the second byte of a two-byte terminator) */
   size_t nnl = 0;
   bool   wellformed = true, skip = false;
   for (size_t i = 0; i < a.size(); i++)
   {
      if (skip) { skip = false; continue; }
      if (a[i] == '\n' || a[i] == '\r')
      {
         if (a[i] != nl0) { wellformed = false; }
         if (nll == 2)
         {
            if (i + 1 >= a.size() || a[i + 1] != nl1) { wellformed = false; }
            skip = true;
         }
         nnl++;
      }
   }
   vp_assert(wellformed, "C08:a CR or LF byte was written that is not part of the configured terminator");
   vp_assert(nnl == (size_t)neol, "C08:number of terminators written differs from the number of line breaks in the text");
   /* (d) column bookkeeping == display width of the bytes written (+ buffered blanks) */
   vp_assert(ref_col_of_last_line(a, 0, a.size(), ts) + spA == colA, "C17:cpd.column is not 1 + display width of the current output line");
   if (cpd.output_tab_as_space)
   {
      bool tab = false;
      for (size_t i = 0; i < a.size(); i++) { if (a[i] == '\t') { tab = true; } }
      vp_assert(!tab, "C17:tab byte written although tabs are to be written as spaces");
   }
   int iwt = options::pp_indent_with_tabs();
   if (cpd.in_preproc != CT_PREPROC || iwt == -1) { iwt = (int)options::indent_with_tabs(); }
   if (iwt == 0 && !lit)
   {
      bool st = false;
      for (size_t i = 1; i < a.size(); i++) { if (a[i] == '\t' && a[i - 1] == ' ') { st = true; } }
      vp_assert(!st, "C17:tab written directly after a space although tabs are disabled for indentation");
   }
#ifndef NO_RUN_B
   /* ---- run B: same text, other terminators */
   out_clear();
   cpd.column = 1; cpd.spaces = 0; cpd.did_newline = true; cpd.last_char = '\n';
   render(el, sb, lit);
   bool same = (out_size() == a.size()) && cpd.column == colA && cpd.spaces == spA;
   for (size_t i = 0; same && i < a.size(); i++) { if (out_at(i) != a[i]) { same = false; } }
   vp_assert(same, "C08:output depends on which terminators (LF, CR LF, CR) the text was read with");
#endif
   vp_witness("end");
}

/* OUT-COL ---------------------------------------------------------------------------
 * output_to_column(col, allow_tabs) from a line that already holds P characters */
#ifndef P
#define P 1
#endif
extern "C" void vp_out_col()
{
   vp_out_setup();
   size_t ts = options::output_tab_size();
   for (int i = 0; i < P; i++)
   {
      unsigned k = (unsigned)vp_range(0, 2);
      add_char(k == 0 ? 'a' : k == 1 ? ' ' : '\t', false);
   }
   size_t before   = out_size();
   size_t col0     = cpd.column;
   size_t sp0      = cpd.spaces;
   size_t col      = (size_t)vp_range(1, COLMAX);
   bool   tabs     = vp_bool();
   output_to_column(col, tabs);
   add_char('y', false);
   size_t want = (col > col0) ? col : col0;
   /* where does 'y' sit, reading the bytes back with tab stops every ts columns
    * (this is what the tokenizer does when the output is formatted again: C05) */
   out_copy o;
   o.take();
   vp_assert(o.size() > 0 && o[o.size() - 1] == 'y', "C17:character after the gap was not written");
   if (o.n > 0) { o.n--; }
   vp_assert(ref_col_of_last_line(o, 0, o.size(), ts) == want, "C05:bytes written do not place the next token in the requested column");
   vp_assert(cpd.column == want + 1, "C17:cpd.column out of step after output_to_column");
   /* the gap is tabs first, then spaces; no tab at all when tabs are not allowed */
   bool   seen_space = false, order = true, tab = false;
   size_t ntab = 0, nsp = 0;
   for (size_t i = before; i < o.size(); i++)
   {
      if (o[i] == ' ') { seen_space = true; nsp++; }
      else if (o[i] == '\t') { tab = true; ntab++; if (seen_space) { order = false; } }
      else { order = false; }
   }
   if (P == 0 || sp0 == 0) { vp_assert(order, "C17:gap is not of the form TAB* SPACE*"); }
   if (!tabs || cpd.output_tab_as_space) { vp_assert(!tab, "C17:tab written where tabs are not allowed"); }
#if P == 0
   /* start of line: realisation of an indent column (C18) */
   if (tabs && !cpd.output_tab_as_space)
   {
      vp_assert(ntab == (col - 1) / ts && nsp == (col - 1) % ts, "C18:indent column not realised as the maximal number of tabs followed by spaces");
   }
   else
   {
      vp_assert(nsp == col - 1, "C18:indent column not realised as col-1 spaces");
   }
#endif
   vp_witness("end");
}
