"""LIST-OPS: reordering primitives of the chunk list (src/chunk.cpp, src/ListManager.h)."""
TUS = ['unc_text.cpp', 'unicode.cpp', 'unc_ctype.cpp', '$BUILD/src/options.cpp', '$HARNESS/chartable.cpp']
SHAPES = {'quick': ['0,1,0,1'], 'thorough': ['0,1,0,1', '0,0,1,0,1', '0,1,0,0,1', '0,1,0,1,0,1', '0,0,1,0,0,1', '0,1,1,0,1']}
OBLIGATIONS = [
    dict(id='LIST-OPS', harness='list.cpp', mem_gb=40, entry='vp_list_ops', extra_tus=TUS, havoc_options=True, noop=['_Z11encode_utf8iRSt9vp_vectorIhvE', '_Z15space_col_alignP5ChunkS0_'],
         instances=lambda tier: [dict(name='shape-' + sh.replace(',', ''), bound='list with line structure [%s] (1 = newline chunk); operation (Swap, MoveAfter, SwapLines) and both operands symbolic' % sh,
                                      unwind=len(sh.split(',')) + 3, defs=dict(K=len(sh.split(',')), VP_SHAPE=sh, VP_CAP_INT=4, VP_CAP_U8=8)) for sh in SHAPES[tier]],
         assumptions=['operands are chunks of the list (the callers\' contract)', 'space_col_align (column bookkeeping of MoveAfter) is a no-op: columns are not part of this obligation',
                      'container models, logging helpers empty, UncText log text not maintained']),
]
# LIST-OPS is implemented but NOT claimed: with symbolic operands the SAT conversion ran out of memory (40 GB) even for a
# 4-chunk list; with concrete operands nothing symbolic of interest is left. C04 is therefore listed as not applicable.
PROPERTIES = {}
