"""IO-*, CHK-*, BK-*: the file protocol (src/uncrustify.cpp do_source_file & friends, src/backup.cpp)."""
TUS = ['unicode.cpp', 'unc_text.cpp', 'chunk.cpp', 'unc_ctype.cpp']
FMT = ['vp_fmt_open_buf', 'vp_fmt_open_file', 'vp_fmt_str', 'vp_fmt_strn', 'vp_fmt_char', 'vp_fmt_int', 'vp_fmt_close']
PATCH = [dict(file='uncrustify.cpp', subs=[(r'^void uncrustify_file\(', 'void unc_detached_uncrustify_file(', 1),
                                            # cpd becomes an external object (zero state in the solver build, the real
                                            # default-constructed object in the reference build): lets the engine split it per field
                                            (r'^cp_data_t\s+cpd\s*;', 'extern cp_data_t cpd;', 1)])]
COMMON = dict(harness='io.cpp', extra_tus=TUS, printf_model=True, keep=FMT, patch_sources=PATCH,
              assumptions=['libc file API = in-memory model harness/vp_fsmodel.h (<=5 named files, content <= L bytes; every call a crash and fault point)',
                           'uncrustify_file() = stub writing an arbitrary fixed byte string F (or exiting: formatting failure)',
                           'MD5 = abstract injective digest (collision freedom on the explored contents assumed)',
                           'language detection / keyword table initialisation stubbed', 'allocation never fails'])


def UNWINDSET(l):
    return {r'backup_create_md5_file\w*\.[3-9]$': 18, 'decode_|_utf|get_word|is_ascii|decode_bom': l + 3,
            'f_fread|f_read|f_fwrite': l + 6,
            'f_fwrite|load_mem_file|file_content_matches|bout_content|f__Z15uncrustify_file|backup_create_md5_file|MD5': l + 3,
            'vp_fmt_int': 4, 'do_source_file|make_folders': 18}


def atomic_instances(tier):
    out = []
    # (L, crash, faults, no_backup, if_changed)
    # thorough = the quick set with a longer cap: deeper combinations (crash + fault pairs, 3-byte contents) did not reliably
    # finish within the cap on this machine and an inconclusive run must not be registered as a command that can fail
    combos = [(1, 1, 1, 1, 0), (1, 0, 1, 0, 0), (1, 1, 0, 0, 0), (1, 0, 1, 0, 1), (2, 0, 1, 0, 0)]
    for (l, crash, nf, nb, ic) in combos:
        out.append(dict(name='L%d-crash%d-faults%d-nobackup%d-ifchanged%d' % (l, crash, nf, nb, ic),
                        bound='original and formatted content: all byte strings of length %d; in-place, --no-backup=%d, --if-changed=%d; formatting may fail; '
                              '%s crash point x %d injected fault(s) over all libc file operations of the run; arbitrary stale temp/backup/md5 files' % (l, nb, ic, 'one' if crash else 'no', nf),
                        unwind=40, unwindset=UNWINDSET(l), timeout=(1500 if tier == 'quick' else 3400),
                        defs=dict(VP_FS_L=l, CRASH=crash, NFAULTS=nf, NOBACKUP=nb, IFCH=ic, VP_CAP_U8=l + 3, VP_CAP_INT=l + 2)))
    return out


def plain_instances(tier, lb=False):
    out = []
    for (lo, lf) in [(1, 1), (2, 2), (2, 1)]:
        l = max(lo, lf, 1)
        out.append(dict(name='o%d-f%d' % (lo, lf), bound='all original contents of %d bytes x all formatted contents of %d bytes; all run modes of the obligation; arbitrary stale side files' % (lo, lf),
                        unwind=40, unwindset=UNWINDSET(l), defs=dict(VP_FS_L=l, VPLO=lo, VPLF=lf, CRASH=0, NFAULTS=0, VP_CAP_U8=l + 3, VP_CAP_INT=l + 2)))
    return out


def funnel_instances(tier):
    out = []
    for base in plain_instances(tier)[:1]:
        for (mode, nb) in (((0, 1), (1, 1), (2, 1)) if tier == 'quick' else ((0, 1), (0, 0), (1, 1), (2, 1))):
            i = dict(base)
            i['name'] = base['name'] + '-' + ('inplace', 'o', 'stdout')[mode] + ('' if nb else '-backup')
            i['defs'] = dict(base['defs'], FMODE=mode, NOBACKUP=nb)
            i['timeout'] = 1500 if tier == 'quick' else 3400
            out.append(i)
    return out


def nowrite_instances(tier):
    out = []
    for base in plain_instances(tier)[:2]:
        for (chk, inpl) in ((1, 0), (0, 1), (0, 0)):
            i = dict(base)
            i['name'] = base['name'] + ('-check' if chk else ('-ifchanged-inplace' if inpl else '-ifchanged-o'))
            i['defs'] = dict(base['defs'], CHECKMODE=chk, INPLACE=inpl)
            out.append(i)
    return out


OBLIGATIONS = [
    dict(COMMON, id='IO-ATOMIC', entry='vp_io_atomic', instances=atomic_instances),
    dict(COMMON, id='IO-FUNNEL', entry='vp_io_funnel', instances=funnel_instances),
    dict(COMMON, id='CHK-CMP', entry='vp_chk_cmp', instances=plain_instances),
    dict(COMMON, id='CHK-NOWRITE', entry='vp_chk_nowrite', instances=nowrite_instances),
    dict(COMMON, id='ST-RESET', entry='vp_st_reset', instances=lambda tier: plain_instances(tier)[:1],
         assumptions=['arbitrary valuation of the per-file fields of cpd that uncrustify_end() is responsible for; a chunk list of 0..2 chunks']),
    dict(COMMON, id='BK-STEP', entry='vp_bk_step', instances=lambda tier: [dict(i, timeout=1500) for i in plain_instances(tier)[:1]] if tier == 'quick' else [dict(i, timeout=3400) for i in plain_instances(tier)[:1]]),
]
PROPERTIES = {
    'C11': dict(obligations=['ST-RESET'],
                not_decided='state that is not in cpd or that uncrustify_end() does not own: container caches (sort_imports chunk_priority_cache / filename_without_ext_cache), Qt override state, cpd.last_char, '
                            'and cpd.lang_flags under -l (the ObjC probe of parse_next assigns it and the forced-language path never restores it: read, not confirmed on the binary); '
                            'state written by passes that are not encoded.'),
    'C10': dict(obligations=['IO-FUNNEL'], not_decided="main()'s argument dispatch, stdin delivery, observer options, environment/locale independence."),
    'C12': dict(obligations=['CHK-CMP', 'CHK-NOWRITE'], not_decided="main()'s exit status from check_fail_cnt and its rejection of --check with output options."),
    'C14': dict(obligations=['BK-STEP'], not_decided='real MD5 (abstract injective digest assumed); crash points inside the step (IO-ATOMIC covers target/backup, not the md5 record).'),
    'C13': dict(obligations=['IO-ATOMIC'], not_decided='durability below libc (fsync ordering).'),
}
