/* CFG-* obligations: option value reader/writer (src/option.cpp read_number, read_enum,
 * Option<T>::read/str, BoundedOption::validate in option.h, generated convert_string/to_string).
 * Owners: C16 (bad values are diagnosed and have no effect), C15 (value round trip).
 * Environment (both builds): find_option() is the harness resolver over three reference options
 * ("u" unsigned, "s" signed, "b" bool; anything else unknown); OptionWarning only counts. The real
 * definitions are detached by the engine's source patch. */
#define private public
#define protected public
#include "patched/option.cpp"
#undef private
#undef protected
VP_ZERO_GLOBAL(cp_data_t, cpd);

#ifndef N
#define N 3
#endif
static unsigned vp_diag;
namespace uncrustify {
OptionWarning::OptionWarning(const char *, Severity) { vp_diag++; }
OptionWarning::OptionWarning(const GenericOption *, Severity) { vp_diag++; }
OptionWarning::~OptionWarning() {}
void OptionWarning::operator()(const char *, ...) {}
static Option<unsigned> vp_ref_u{ "u", "" };
static Option<signed>   vp_ref_s{ "s", "" };
static Option<bool>     vp_ref_b{ "b", "" };
GenericOption *find_option(const char *name)
{
   if ((name[0] == 'u' || name[0] == 'U') && name[1] == 0) { return &vp_ref_u; }
   if ((name[0] == 's' || name[0] == 'S') && name[1] == 0) { return &vp_ref_s; }
   if ((name[0] == 'b' || name[0] == 'B') && name[1] == 0) { return &vp_ref_b; }
   return nullptr;
}
}
using namespace uncrustify;

/* what a value text denotes, written independently of read_number():
 * kind 0 = nothing valid, 1 = a number (val) */
static int ref_denotes(const char *s, long *val)
{
   int  i   = 0;
   bool neg = false;
   /* decimal literal: strtol syntax without leading blanks (the line splitter strips them) */
   if (s[0] == '-' || s[0] == '+') { neg = (s[0] == '-'); i = 1; }
   if (s[i] >= '0' && s[i] <= '9')
   {
      long v = 0;
      int  j = i;
      while (s[j] >= '0' && s[j] <= '9' && j < N + 1) { v = v * 10 + (s[j] - '0'); j++; }
      if (s[j] == 0) { *val = neg ? -v : v; return 1; }
      return 0;
   }
   /* reference, optionally negated */
   const char *r = s;
   bool inv = false;
   if (r[0] == '-') { inv = true; r++; }
   if ((r[0] == 'u' || r[0] == 'U') && r[1] == 0) { long t = (long)vp_ref_u(); *val = inv ? -t : t; return 1; }
   if ((r[0] == 's' || r[0] == 'S') && r[1] == 0) { long t = (long)vp_ref_s(); *val = inv ? -t : t; return 1; }
   return 0;
}
static void vp_text(char *buf)
{
   for (int i = 0; i < N; i++)
   {
      char c = (char)vp_range(1, 126);
      vp_assume(c != ' ' && !(c >= 9 && c <= 13));       /* split_args never hands over white space (is_arg_sep) */
      buf[i] = c;
   }
   buf[N] = 0;
   vp_ref_u = (unsigned)vp_range(0, 0xffffffffu);
   vp_ref_s = (signed)(long)vp_range(0, 0xffffffffu);
   vp_ref_b = vp_bool();
   vp_diag  = 0;
}

/* CFG-NUM: bounded numeric options -------------------------------------------------------- */
template<class OPT, class T>
static void check_num(OPT &opt, long mn, long mx, const char *buf)
{
   static_cast<Option<T> &>(opt) = (T)((long)vp_range(0, (uint64_t)(mx - mn)) + mn);
   T    old = opt();
   bool ok  = opt.read(buf);
   long want;
   int  k = ref_denotes(buf, &want);
   if (k == 1 && want >= mn && want <= mx)
   {
      vp_assert(ok && (long)opt() == want, "C15:a valid in-range value was not accepted as written");
   }
   else
   {
      vp_assert(!ok, "C16:an invalid or out-of-range value was accepted");
      vp_assert(opt() == old, "C16:a rejected value changed the option");
      vp_assert(vp_diag > 0, "C16:a rejected value produced no diagnostic");
   }
   vp_assert((long)opt() >= mn && (long)opt() <= mx, "C16:option left outside its documented range");
}
extern "C" void vp_cfg_num()
{
   char buf[N + 1];
   vp_text(buf);
   if (vp_bool()) { check_num<decltype(options::output_tab_size), unsigned>(options::output_tab_size, 1, 32, buf); vp_witness("opt:unsigned"); }
   else { check_num<decltype(options::pp_indent_with_tabs), signed>(options::pp_indent_with_tabs, -1, 2, buf); vp_witness("opt:signed"); }
   vp_witness("end");
}

/* CFG-BOUND: validate() of every BoundedOption instantiation --------------------------------- */
template<class T, T mn, T mx>
static void check_bound(BoundedOption<T, mn, mx> &o, long v)
{
   unsigned d0 = vp_diag;
   bool     ok = o.validate(v);
   vp_assert(ok == (v >= (long)mn && v <= (long)mx), "C16:range validation disagrees with the documented bounds");
   vp_assert(ok || vp_diag > d0, "C16:out-of-range value without diagnostic");
}
extern "C" void vp_cfg_bound()
{
   long     v     = (long)vp_nondet();
   unsigned which = (unsigned)vp_range(0, 1000);
   unsigned k     = 0;
#define VP_BOUNDED(name) if (which == k++) { check_bound(options::name, v); vp_witness("opt:" #name); }
#include "vp_bounded_gen.h"
   vp_assume(which < k);
   vp_witness("end");
}

/* CFG-ENUM: str() -> read() for the enumerated types and bool (C15) --------------------------- */
extern "C" void vp_cfg_enum()
{
   vp_diag = 0;
   unsigned t = (unsigned)vp_range(0, 3);
   if (t == 0)
   {
      options::sp_arith = (iarf_e)vp_range(0, 3);
      iarf_e      v = options::sp_arith();
      std::string s = options::sp_arith.str();
      options::sp_arith = (iarf_e)vp_range(0, 3);
      vp_assert(options::sp_arith.read(s.c_str()) && options::sp_arith() == v, "C15:iarf value does not survive write/read");
   }
   else if (t == 1)
   {
      options::newlines = (line_end_e)vp_range(0, 3);
      line_end_e  v = options::newlines();
      std::string s = options::newlines.str();
      options::newlines = (line_end_e)vp_range(0, 3);
      vp_assert(options::newlines.read(s.c_str()) && options::newlines() == v, "C15:line_end value does not survive write/read");
   }
   else if (t == 2)
   {
      unsigned x = (unsigned)vp_range(0, 16);
      vp_assume(x == 0 || x == 1 || x == 2 || x == 4 || x == 8 || x == 16 || x == 5 || x == 6 || x == 9 || x == 10);
      options::pos_arith = (token_pos_e)x;
      std::string s = options::pos_arith.str();
      options::pos_arith = token_pos_e::IGNORE;
      vp_assert(options::pos_arith.read(s.c_str()) && (unsigned)options::pos_arith() == x, "C15:token_pos value does not survive write/read");
   }
   else
   {
      bool b = vp_bool();
      options::indent_class = b;
      std::string s = options::indent_class.str();
      options::indent_class = !b;
      vp_assert(options::indent_class.read(s.c_str()) && options::indent_class() == b, "C15:bool value does not survive write/read");
   }
   vp_assert(vp_diag == 0, "C15:reading back a written value produced a diagnostic");
   vp_witness("end");
}
