/* the character class table lives in uncrustify.cpp (DEFINE_CHAR_TABLE); the solver build gets its own copy of the
 * same definition from char_table.h so that it is not left as a zero-initialised external */
#ifndef VP_REAL_STL
#define DEFINE_CHAR_TABLE
#include "/repo/src/char_table.h"
#endif
