/* IO-* / CHK-* / BK-* obligations: the real file protocol of src/uncrustify.cpp
 * (do_source_file, load_mem_file, file_content_matches, bout_content_matches,
 * make_folders) and src/backup.cpp (backup_copy_file, backup_create_md5_file) over the
 * in-memory libc model of vp_fsmodel.h. Owners: C10, C12, C13, C14.
 *
 * Environment stubs (both builds, listed in the evidence):
 *   uncrustify_file()   - the formatter: writes the fixed but arbitrary byte string F the
 *                         way output_text does (fputc on cpd.fout, push_back on cpd.bout);
 *                         may "fail to format" (exit) first. The real definition is detached
 *                         by the engine's source patch (renamed, unused).
 *   MD5                 - abstract injective digest [len, b0, b1, b2, ...] (collision freedom
 *                         of MD5 on the explored contents is assumed, DESIGN.md section 2)
 *   language/keyword    - language_flags_from_filename -> LANG_C, init_keywords_for_language -> nothing
 *   libc file API       - vp_fsmodel.h */
#include "vp_fsmodel.h"
#define main unc_real_main_fn
#include "patched/uncrustify.cpp"
#undef main
#include "/repo/src/backup.cpp"
template class std::basic_string<char>;

#ifndef LO
#define LO VP_FS_L      /* length of the original content */
#endif
#ifndef LF
#define LF VP_FS_L      /* length of the formatted content */
#endif

static unsigned char vp_O[VP_FS_L + 1], vp_F[VP_FS_L + 1];
static bool          vp_fmt_fails;
static unsigned      vp_unc_calls;
static bool          vp_raw_ok = true;
static int           vp_mode;       /* which at-termination assertion set */
static bool          vp_no_backup;
static bool          vp_md5_matches_O;

/* ---- formatter stub */
void uncrustify_file(const file_mem &fm, FILE *pfout, const char *parsed_file, const char *dump_file, bool is_quiet, bool defer_uncrustify_end)
{
   (void)parsed_file; (void)dump_file;
   vp_unc_calls++;
   /* C10: the formatter is handed exactly the bytes of the file */
   if (fm.raw.size() != LO) { vp_raw_ok = false; }
   for (size_t i = 0; i < fm.raw.size() && i < LO; i++) { if (fm.raw[i] != vp_O[i]) { vp_raw_ok = false; } }
   if (vp_fmt_fails) { exit(EX_SOFTWARE); }
   cpd.fout = pfout;
   for (unsigned i = 0; i < LF; i++)
   {
      if (cpd.fout) { fputc(vp_F[i], cpd.fout); }
      if (cpd.bout) { cpd.bout->push_back(vp_F[i]); }
   }
   if (cpd.do_check && !bout_content_matches(fm, true, is_quiet)) { cpd.check_fail_cnt++; }
   if (!defer_uncrustify_end) { uncrustify_end(); }
}

/* ---- abstract digest */
MD5::MD5() { Init(); }
void MD5::Init() { m_bits[0] = 0; for (int i = 0; i < 16; i++) { m_in32[i] = 0; } }
void MD5::Update(const void *data, UINT32 len)
{
   for (UINT32 i = 0; i < len; i++)
   {
      if (m_bits[0] < 15) { m_in32[m_bits[0]] = ((const UINT8 *)data)[i]; }
      m_bits[0]++;
   }
}
void MD5::Final(UINT8 digest[16])
{
   digest[0] = (UINT8)m_bits[0];
   for (int i = 1; i < 16; i++) { digest[i] = (UINT8)m_in32[i - 1]; }
}
void MD5::Calc(const void *data, UINT32 length, UINT8 digest[16]) { MD5 m; m.Update(data, length); m.Final(digest); }
void MD5::Transform(UINT32 *, UINT32 *) {}
void MD5::reverse_u32(UINT8 *, int) {}

size_t language_flags_from_filename(const char *) { return e_LANG_C; }
void init_keywords_for_language() {}

/* ---- file system set-up */
enum { S_IN = 0, S_TMP = 1, S_BAK = 2, S_OUT = 3, S_TMP2 = 4, S_MD5 = VP_FS_NFILES };
static std::deque<UINT8> vp_bout;

static void vp_hex_digest_of(const unsigned char *c, unsigned len, unsigned char *out36)
{
   /* what backup_create_md5_file writes for a file named "f" holding c[0..len) */
   UINT8 dig[16];
   MD5::Calc(c, len, dig);
   for (int i = 0; i < 16; i++)
   {
      unsigned hi = dig[i] >> 4, lo = dig[i] & 15;
      out36[2 * i]     = (unsigned char)(hi < 10 ? '0' + hi : 'a' + hi - 10);
      out36[2 * i + 1] = (unsigned char)(lo < 10 ? '0' + lo : 'a' + lo - 10);
   }
   out36[32] = ' '; out36[33] = ' '; out36[34] = 'f'; out36[35] = '\n';
}
static bool vp_is(int s, const unsigned char *c, unsigned len)
{
   if (!vp_fs[s].exists || vp_fs[s].len != len) { return false; }
   for (unsigned i = 0; i < len; i++) { if (vp_fs[s].d[i] != c[i]) { return false; } }
   return true;
}
static void vp_io_setup(bool in_place)
{
   vp_fs_name[S_IN]   = "f";
   vp_fs_name[S_TMP]  = "f.uncrustify";
   vp_fs_name[S_BAK]  = "f.unc-backup~";
   vp_fs_name[S_MD5]  = "f.unc-backup.md5~";
   vp_fs_name[S_OUT]  = "o";
   vp_fs_name[S_TMP2] = 0;
   stdout = (FILE *)(void *)&vp_console_obj;
   stderr = (FILE *)(void *)&vp_console_obj;
   for (unsigned i = 0; i < LO; i++) { vp_O[i] = vp_u8(); }
   for (unsigned i = 0; i < LF; i++) { vp_F[i] = vp_u8(); }
   vp_fs[S_IN].exists = true;
   vp_fs[S_IN].len    = LO;
   for (unsigned i = 0; i < LO; i++) { vp_fs[S_IN].d[i] = vp_O[i]; }
   /* arbitrary leftovers of earlier runs: a stale temp file, an old backup */
   vp_fs[S_TMP].exists = vp_bool();
   vp_fs[S_TMP].len    = (unsigned)vp_range(0, VP_FS_L);
   vp_fs[S_BAK].exists = vp_bool();
   vp_fs[S_BAK].len    = (unsigned)vp_range(0, VP_FS_L);
   for (unsigned i = 0; i < VP_FS_L; i++) { vp_fs[S_TMP].d[i] = vp_u8(); vp_fs[S_BAK].d[i] = vp_u8(); }
   vp_fs[S_OUT].exists = in_place ? false : vp_bool();
   vp_fs[S_OUT].len    = 0;
   cpd.lang_flags  = e_LANG_C;
   cpd.lang_forced = true;
   cpd.bout        = nullptr;
}
/* md5 side file: absent, or the record of some content X (|X| <= L, arbitrary) */
static unsigned char vp_X[VP_FS_L + 1];
static unsigned      vp_XL;
static void vp_md5_prestate()
{
   vp_fs_md5.exists = vp_bool();
   vp_XL = (unsigned)vp_range(0, VP_FS_L);
   for (unsigned i = 0; i < VP_FS_L; i++) { vp_X[i] = vp_u8(); }
   vp_hex_digest_of(vp_X, vp_XL, vp_fs_md5.d);
   vp_fs_md5.len = 36;
   bool same = (vp_XL == LO);
   for (unsigned i = 0; i < LO; i++) { if (vp_X[i] != vp_O[i]) { same = false; } }
   vp_md5_matches_O = vp_fs_md5.exists && same;
}
static void vp_schedule(bool crash, int nfaults)
{
   vp_crash_keep  = (unsigned)vp_range(0, VP_FS_MD5LEN);
   vp_fault_keep1 = (unsigned)vp_range(0, VP_FS_MD5LEN);
   vp_fault_keep2 = (unsigned)vp_range(0, VP_FS_MD5LEN);
   if (crash) { vp_crash_at = (unsigned)vp_range(0, 64); }
   if (nfaults >= 1) { vp_fault_at1 = (unsigned)vp_range(0, 64); }
   if (nfaults >= 2) { vp_fault_at2 = (unsigned)vp_range(0, 64); vp_assume(vp_fault_at2 > vp_fault_at1); }
}

/* ---- at-termination assertions */
enum { M_ATOMIC = 1, M_FUNNEL, M_CHECK, M_IFCH, M_BKSTEP };
static void vp_at_termination(int how, int status)
{
   vp_observe("file-ops", vp_ncalls);
   vp_observe("how", (uint64_t)how);
   if (vp_mode == M_ATOMIC)
   {
      bool isO = vp_is(S_IN, vp_O, LO), isF = vp_is(S_IN, vp_F, LF);
      vp_assert(isO || isF, "C13:target holds neither the complete original nor the complete formatted bytes");
      if (!vp_no_backup && !isO)
      {
         vp_assert(vp_is(S_BAK, vp_O, LO), "C13:target was replaced but no backup holds exactly the original bytes");
      }
      if (how == 0)
      {
         vp_assert(isF, "C13:run reported success (exit 0) although the target does not hold the formatted bytes");
      }
      if (how == 1) { vp_assert(status != 0, "C13:exit(0) on a failure path"); }
      if (how == 0) { vp_witness("opt:atomic-return"); }
      if (how == 1) { vp_witness("opt:atomic-exit"); }
      if (how == 2) { vp_witness("opt:atomic-crash"); }
   }
}

/* IO-ATOMIC (C13): in-place rewrite, one crash point and/or up to two faults */
#ifndef NFAULTS
#define NFAULTS 1
#endif
#ifndef CRASH
#define CRASH 1
#endif
extern "C" void vp_io_atomic()
{
   vp_io_setup(true);
   vp_md5_prestate();
   /* C13 speaks about the bytes the user had in the file: the case "the file is uncrustify's own
    * last output, recorded in the md5 side file" (no new backup by design) is C14's subject */
   vp_assume(!vp_md5_matches_O);
   vp_mode      = M_ATOMIC;
   /* run modes concrete per instance (they prune whole phases of the protocol), data and schedule symbolic */
#ifdef NOBACKUP
   vp_no_backup = (NOBACKUP != 0);
#else
   vp_no_backup = vp_bool();
#endif
   vp_fmt_fails = vp_bool();
#ifdef IFCH
   cpd.if_changed = (IFCH != 0);
#else
   cpd.if_changed = vp_bool();
#endif
   cpd.do_check   = false;
   if (cpd.if_changed) { cpd.bout = &vp_bout; }
   vp_schedule(CRASH != 0, NFAULTS);
   do_source_file("f", "f", nullptr, nullptr, vp_no_backup, false, true);
   vp_at_termination(vp_dead ? 2 : 0, 0);
   vp_witness("end");
}
