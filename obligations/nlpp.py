"""NL-PP: newline insertion inside preprocessor directives (src/newlines/add.cpp, setup_newline_add.cpp)."""
TUS = ['chunk.cpp', 'unc_text.cpp', 'unicode.cpp', 'unc_ctype.cpp', 'newlines/one_liner.cpp', 'mark_change.cpp', '$BUILD/src/options.cpp', '$HARNESS/chartable.cpp']
OBLIGATIONS = [
    dict(id='NL-PP', harness='nlpp.cpp', entry='vp_nl_pp', extra_tus=TUS, havoc_options=True, noop=['_Z11encode_utf8iRSt9vp_vectorIhvE'],
         instances=lambda tier: [dict(name='pair', bound='two adjacent chunks with symbolic kind, levels and flags (preprocessor, one-liner, ...), newline added before the second or after the first',
                                      unwind=6, defs=dict(VP_CAP_INT=4, VP_CAP_U8=8))],
         assumptions=['two-chunk list built through the real API', 'container models, logging helpers empty, UncText log text not maintained']),
]
PROPERTIES = {
    'C01': dict(obligations=['NL-PP'],
                not_decided='compile equivalence itself (no compiler semantics in the solver; the ~40 passes as a whole); the token-fusion guard of space_text; brace removal; paren insertion; '
                            'change_int_types, rewrite_infinite_loops, sorting, width.'),
    'C02': dict(obligations=['NL-PP']),
}
