"""NL-*: blank-line limits and file-end newlines (src/newlines/blank_line.cpp, eat_start_end.cpp, can_increase_nl.cpp)."""
TUS = ['chunk.cpp', 'unc_text.cpp', 'unicode.cpp', 'unc_ctype.cpp', 'newlines/can_increase_nl.cpp', 'ifdef_over_whole_file.cpp',
       'newlines/is_func_proto_group.cpp', 'mark_change.cpp', '$BUILD/src/options.cpp', '$HARNESS/chartable.cpp']
NOLOGTEXT = ['_Z11encode_utf8iRSt9vp_vectorIhvE']
COMMON = dict(harness='nl.cpp', extra_tus=TUS, havoc_options=True, noop=NOLOGTEXT, 
              assumptions=['chunk lists of K chunks built through the real API; kinds from the alphabet the code distinguishes; no two adjacent newline chunks '
                           '(invariant of newlines_cleanup_dup); newline counts 1..9; levels 0..2',
                           'unbounded numeric options explored in [0,64]', 'container models, logging helpers empty, UncText log text not maintained'])


def k_instances(ks_q, ks_t, extra_unwind=4):
    def f(tier):
        return [dict(name='k%d' % k, bound='all lists of %d chunks over the kind/parent/flag alphabet x all option values the closure reads' % k,
                     unwind=k + extra_unwind, defs=dict(K=k, VP_CAP_INT=4, VP_CAP_U8=8)) for k in (ks_q if tier == 'quick' else ks_t)]
    return f


SHAPES_Q = [['CT_NEWLINE', 'CT_WORD'], ['CT_WORD', 'CT_NEWLINE'], ['CT_NEWLINE', 'CT_WORD', 'CT_NEWLINE'], ['CT_IGNORED', 'CT_NEWLINE', 'CT_WORD'],
            ['CT_BRACE_OPEN', 'CT_NEWLINE', 'CT_BRACE_CLOSE'], ['CT_NEWLINE', 'CT_PREPROC', 'CT_NEWLINE']]
SHAPES_T = SHAPES_Q + [['CT_WORD', 'CT_NEWLINE', 'CT_COMMENT_MULTI', 'CT_NEWLINE'], ['CT_BRACE_CLOSE', 'CT_NEWLINE', 'CT_WORD', 'CT_NEWLINE'],
                       ['CT_SEMICOLON', 'CT_NEWLINE', 'CT_WORD'], ['CT_COMMENT', 'CT_NEWLINE', 'CT_COMMENT', 'CT_NEWLINE'],
                       ['CT_NEWLINE', 'CT_IGNORED', 'CT_NEWLINE', 'CT_WORD'], ['CT_ACCESS_COLON', 'CT_NEWLINE', 'CT_WORD', 'CT_NEWLINE', 'CT_BRACE_CLOSE']]


def shape_instances(tier):
    out = []
    for sh in (SHAPES_Q if tier == 'quick' else SHAPES_T):
        k = len(sh)
        out.append(dict(name='-'.join(x[3:].lower() for x in sh), bound='chunk list of shape [%s]; newline counts 1..9, parent kinds, levels, flags and all option values the closure reads symbolic' % ', '.join(sh),
                        unwind=k + 4, defs=dict(K=k, VP_KINDS='"%s"' % ','.join(sh) if False else ','.join(sh), VP_CAP_INT=4, VP_CAP_U8=8)))
    return out


OBLIGATIONS = [
    dict(COMMON, id='NL-MAX', entry='vp_nl_max',
         instances=lambda tier: [dict(name='all', bound='every newline count in [0,65535] x every nl_max value', unwind=4, defs=dict(K=1, VP_CAP_INT=4, VP_CAP_U8=8))]),
    dict(COMMON, id='NL-EOF', entry='vp_nl_eof', instances=k_instances([1, 2, 3], [1, 2, 3, 4])),
    dict(COMMON, id='NL-BLSTEP', entry='vp_nl_blstep', instances=shape_instances),
]
OBLIGATIONS.append(dict(COMMON, id='NL-CANINC', entry='vp_nl_caninc',
                        instances=lambda tier: [dict(name=n, bound='list of shape [%s]; counts, parents, levels, flags and every option the closure reads symbolic' % sh,
                                                     unwind=6, defs=dict(K=2, VP_KINDS=sh, VP_CAP_INT=4, VP_CAP_U8=8))
                                                for (n, sh) in (('leading', 'CT_NEWLINE,CT_WORD'), ('trailing', 'CT_WORD,CT_NEWLINE'))]))
import os as _os
PROPERTIES = {
    # NL-BLSTEP (a full run of do_blank_lines) is defined above but NOT claimed: CBMC's symbolic execution of the
    # pointer-chasing list walks did not finish within the cap even for 2 chunks of concrete kinds (DESIGN.md, Corrections)
    'C20': dict(obligations=['NL-MAX', 'NL-EOF', 'NL-CANINC'],
                not_decided='do_blank_lines as a whole (the cap applied to every newline chunk; squeezing of the first/last newline that makes '
                            'nl_start_of_file=add exact) and the ~20 nl_before_/nl_after_ passes: not decidable within reach (list walks); '
                            'eat_blanks_* in newlines_cleanup_braces; the nl_max guard.'),
    'C17': dict(obligations=['NL-EOF']),
}
