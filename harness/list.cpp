/* LIST-OPS (C04, C02): the list primitives that reorder tokens (src/chunk.cpp Chunk::Swap,
 * Chunk::SwapLines, Chunk::MoveAfter, Chunk::Delete, CopyAndAddBefore/After; src/ListManager.h) only
 * permute: the list stays a well-formed doubly linked list over exactly the same nodes (minus a
 * deleted one), and SwapLines exchanges two complete lines and nothing else. */
#define private public
#define protected public
#include "/repo/src/chunk.cpp"
#undef private
#undef protected
#include "vp_opts.h"
VP_ZERO_GLOBAL(cp_data_t, cpd);

#ifndef K
#define K 5
#endif
static Chunk *vp_n[K + 1];
static int    vp_id_of(Chunk *c) { for (int i = 0; i < K; i++) { if (vp_n[i] == c) { return i; } } return -1; }

/* shape: line structure concrete per instance: VP_SHAPE lists 1 for newline chunks */
static const int vp_shape[] = { VP_SHAPE };
static void vp_build()
{
   for (int i = 0; i < K; i++)
   {
      Chunk c;
      c.SetType(vp_shape[i] ? CT_NEWLINE : (vp_bool() ? CT_WORD : CT_SEMICOLON));
      c.SetNlCount(vp_shape[i] ? (size_t)vp_range(1, 3) : 0);
      c.SetOrigLine(1);
      c.SetOrigCol(1 + i);
      c.SetPpLevel(0);
      if (!vp_shape[i]) { c.Str().append('a' + i); }
      vp_n[i] = c.CopyAndAddBefore(Chunk::NullChunkPtr);
   }
}
/* well-formed list over the K nodes; writes the order of node ids into ord[] */
static bool vp_wellformed(int *ord, int expect)
{
   Chunk *pc = Chunk::GetHead();
   Chunk *pv = Chunk::NullChunkPtr;
   int    n  = 0;
   bool   ok = true;
   bool   seen[K + 1];
   for (int i = 0; i < K; i++) { seen[i] = false; }
   for (int step = 0; step < K + 1; step++)
   {
      if (pc->IsNullChunk()) { break; }
      if (pc->GetPrev() != pv) { ok = false; }
      int id = vp_id_of(pc);
      if (id < 0 || seen[id]) { ok = false; } else { seen[id] = true; ord[n] = id; }
      n++;
      pv = pc;
      pc = pc->GetNext();
   }
   if (!pc->IsNullChunk()) { ok = false; }
   if (Chunk::GetTail() != pv) { ok = false; }
   return ok && n == expect;
}
extern "C" void vp_list_ops()
{
   vp_build();
   int      ord[K + 1];
   unsigned op = (unsigned)vp_range(0, 2);
   int      i  = (int)vp_range(0, K - 1), j = (int)vp_range(0, K - 1);
   if (op == 0)
   {
      vp_assume(i != j);
      vp_n[i]->Swap(vp_n[j]);
      vp_assert(vp_wellformed(ord, K), "C04:Swap left a list that is not a permutation of the same nodes");
      bool okp = true;
      for (int k = 0; k < K; k++) { int want = (k == i) ? j : (k == j) ? i : k; if (ord[k] != want) { okp = false; } }
      vp_assert(okp, "C04:Swap did more (or less) than exchange the two chunks");
      vp_witness("opt:swap");
   }
   else if (op == 1)
   {
      vp_assume(i != j && !vp_shape[i] && !vp_shape[j]);
      vp_n[i]->MoveAfter(vp_n[j]);
      vp_assert(vp_wellformed(ord, K), "C04:MoveAfter left a list that is not a permutation of the same nodes");
      bool okp = true;
      int  pos_i = -1, pos_j = -1, last = -1;
      for (int k = 0; k < K; k++)
      {
         if (ord[k] == i) { pos_i = k; continue; }
         if (ord[k] == j) { pos_j = k; }
         if (ord[k] < last) { okp = false; }       /* the others keep their relative order */
         last = ord[k];
      }
      vp_assert(okp && pos_i == pos_j + 1, "C04:MoveAfter did not place the chunk directly after the reference, or disturbed the others");
      vp_witness("opt:move");
   }
   else
   {
      /* SwapLines: the chunks of the two lines change places as whole lines */
      vp_assume(!vp_shape[i] && !vp_shape[j]);
      int li = 0, lj = 0;
      for (int k = 0; k < i; k++) { if (vp_shape[k]) { li++; } }
      for (int k = 0; k < j; k++) { if (vp_shape[k]) { lj++; } }
      vp_assume(li != lj);
      vp_n[i]->SwapLines(vp_n[j]);
      vp_assert(vp_wellformed(ord, K), "C04:SwapLines left a list that is not a permutation of the same nodes");
      /* single pass over the result: between two newline chunks all text chunks come from ONE original line, in their
       * original order; the newline chunks keep their order; chunk i now sits in the line slot j had and vice versa */
      int  line_of[K + 1];
      { int l = 0; for (int k = 0; k < K; k++) { line_of[k] = l; if (vp_shape[k]) { l++; } } }
      bool okp = true;
      int  slot = 0, cur_line = -1, last_id = -1, last_nl = -1, slot_i = -1, slot_j = -1;
      for (int k = 0; k < K; k++)
      {
         int id = ord[k];
         if (vp_shape[id])
         {
            if (id < last_nl) { okp = false; }
            last_nl = id; slot++; cur_line = -1; last_id = -1;
            continue;
         }
         if (cur_line >= 0 && line_of[id] != cur_line) { okp = false; }
         if (id < last_id) { okp = false; }
         cur_line = line_of[id]; last_id = id;
         if (id == i) { slot_i = slot; }
         if (id == j) { slot_j = slot; }
      }
      if (slot_i != lj || slot_j != li) { okp = false; }
      vp_assert(okp, "C04:SwapLines moved something other than the two complete lines");
      vp_witness("opt:swaplines");
   }
   vp_witness("end");
}
