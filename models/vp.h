/* Harness primitives shared by the real (g++) build and the IR->C build.
 * In the IR they are external calls that ir2c.py maps to VP_* macros of the
 * generated C (CBMC: __CPROVER_*, native: event printer). */
#ifndef VP_H_INCLUDED
#define VP_H_INCLUDED
#include <stdint.h>
#include <stddef.h>
#ifdef __cplusplus
extern "C" {
#endif
uint64_t vp_nondet(void);                       /* next nondeterministic 64-bit value */
uint64_t vp_range(uint64_t lo, uint64_t hi);    /* nondeterministic value in [lo,hi]     */
void vp_assume(int c);                          /* restrict the explored inputs          */
void vp_assert(int c, const char *id);          /* property assertion                    */
void vp_witness(const char *id);                /* reachability witness (must be reachable) */
void vp_observe(const char *tag, uint64_t v);   /* observable for translator validation  */
void vp_capacity(const char *what);             /* model capacity exceeded: inconclusive */
void vp_abort(const char *what);                /* uncaught throw / abort / exit-less termination */
void vp_unmodelled(const char *what);           /* unmodelled external reached           */
void vp_stop(void);                             /* end this path (after exit())          */
#ifdef __cplusplus
}
static inline uint8_t  vp_u8()  { return (uint8_t)vp_nondet(); }
static inline uint16_t vp_u16() { return (uint16_t)vp_nondet(); }
static inline uint32_t vp_u32() { return (uint32_t)vp_nondet(); }
static inline uint64_t vp_u64() { return vp_nondet(); }
static inline bool     vp_bool(){ return (vp_nondet() & 1) != 0; }
/* A global that the solver build leaves external (the engine zero-initialises it, no
 * constructor runs); the real-STL reference build links the real, default-constructed
 * object from uncrustify's own object file (empty containers, zero scalars: the same state). */
#ifdef VP_REAL_STL
#define VP_ZERO_GLOBAL(type, name) extern type name   /* the real object (default-constructed) from the real object file */
#else
#define VP_ZERO_GLOBAL(type, name) extern type name
#endif
#ifndef VP_CAP_DEFAULT
#define VP_CAP_DEFAULT 8
#endif
/* per element-type capacity of the container models; specialise before including
 * uncrustify sources (ignored by the real-STL reference build) */
template<class T> struct vp_cap { enum { value = VP_CAP_DEFAULT }; };
/* byte and code-point sequences: set with -DVP_CAP_U8= / -DVP_CAP_INT= for ALL translation
 * units of an instance (the capacity is part of the object layout) */
#ifndef VP_CAP_U8
#define VP_CAP_U8 16
#endif
#ifndef VP_CAP_INT
#define VP_CAP_INT 8
#endif
template<> struct vp_cap<unsigned char> { enum { value = VP_CAP_U8 }; };
template<> struct vp_cap<int> { enum { value = VP_CAP_INT }; };
#endif
#endif
