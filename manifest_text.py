"""Per-property claim texts for MANIFEST.json (kept next to the obligations)."""
NOTES = ('Every check: stage P builds /repo working tree in /var/tmp/uncrustify-verif/<treehash>; harness TUs #include the real '
         '.cpp files; IR->C translation is validated on every run against the g++ build of the same functions; exit 2 + '
         'INCONCLUSIVE lines = no verdict (never counted as success).')
NOT_APPLICABLE = {
    'C04': 'Not decidable within reach of solver-based checking of the real code here: the code-modifying passes (braces.cpp, parens.cpp, semicolons.cpp, '
           'sorting.cpp, ...) are pointer-chasing walks over the chunk list with data-dependent predicates; CBMC did not finish symbolic execution of '
           'such walks even for 2-4 chunks (do_blank_lines: no verdict in 10 min; the list primitives Swap/MoveAfter/SwapLines with symbolic operands: '
           'out of memory at 40 GB), and the gating in uncrustify_file() would need ~100 callee stubs in both builds. See DESIGN.md section 9.2.',
}
CLAIMS = {
    'C09': dict(
        text='Bounded model checking of the real codec (src/unicode.cpp): for ALL byte strings up to the stated length the decode->write '
             'round trip is byte-identical or refused; for ALL code points the UTF-8/UTF-16 encoders equal the RFC reference and are '
             'inverted by the decoders; decoding/writing commutes with transcoding for all sequences of k scalar values. This is the '
             'level at which the rare inputs (overlong forms, surrogates, BOM-less UTF-16) are all covered at once.',
        note='Bounds: quick n<=4 bytes / k<=2 code points, thorough n<=8 / k<=3. Assumes the container models (models/vpstl.h) for '
             'std::vector/deque, default BOM policy in UNI-RT. Not decided: passes between tokenizer and output editing code points.',
        design_ref='DESIGN.md section 4, C09'),
    'C08': dict(
        text='Bounded model checking of the real character writer (src/output.cpp add_char/add_spaces/add_text with write_string): for ALL '
             'texts of n elements (line break | ASCII character) and ALL per-break mixtures of LF / CR LF / CR, every CR or LF byte written '
             'belongs to a complete occurrence of the configured terminator, their number equals the number of line breaks, and the bytes '
             'written do not depend on which terminators the text was read with (two-run product). The solver covers the rare interleavings '
             '(CR followed by tab, CR at a tab stop, buffered blanks) that no test input exercises.',
        note='Bounds: quick n<=3 elements, tab size 2/4; thorough n<=5, tab sizes 2..8. Assumes: write_char() replaced by a byte recorder in '
             'the solver build (real writer: C09), no blank directly before a break unless output_trailspace, container models. Not decided: '
             'tokenizer side (terminator census) and the comment writers.',
        design_ref='DESIGN.md section 4, C08'),
    'C17': dict(
        text='Bounded model checking of the output stage kernels that own whitespace hygiene (add_char, output_to_column): cpd.column always '
             'equals the display width of the bytes written, no tab is written when tabs are to be spaces, no tab directly after a space when '
             'indent_with_tabs (pp_indent_with_tabs for preprocessor lines) is 0, and the gap written to reach a column is TAB* SPACE* of exactly '
             'the requested width - for all option values the closure reads, all target columns and line prefixes within the bound.',
        note='Bounds: quick column<=9, tab size 3/4; thorough column<=16, tab size<=8, prefix<=2 chars. Not decided: output_text main loop '
             '(which chunks get tabs), nl_end_of_file policy, comment trimming.',
        design_ref='DESIGN.md section 4, C17'),
    'C05': dict(
        text='One idempotence mechanism is decided by bounded model checking: the bytes output_to_column() writes, read back with tab stops '
             'every output_tab_size columns (what the tokenizer does on the next run), place the following token in exactly the requested '
             'column, for every column / tab size / tab policy within the bound. The byte-level fixed point of the whole pipeline is NOT decided.',
        note='Bounds as C17/OUT-COL. Restricted claim: the pipeline fixed point (all passes, all programs) cannot be encoded within reach of '
             'this technique; see DESIGN.md section 4 C05.',
        design_ref='DESIGN.md section 4, C05'),
    'C18': dict(
        text='Only the last mechanism of the property is decided: how a column chosen by the indent pass is realised in bytes. For every '
             'indent column, tab size and tab policy within the bound, output_to_column() at line start writes the maximal number of tabs '
             'followed by spaces (or col-1 spaces) of display width exactly col-1; the original column never enters.',
        note='indent_text() and brace_cleanup(), which choose the column, are not encodable within reach (4 600-line function, frame stack, '
             '~150 options): that part of C18 is not decided. Bounds as OUT-COL with empty prefix.',
        design_ref='DESIGN.md section 4, C18'),
    'C07': dict(
        text='Bounded model checking of the tokenizer side of disabled regions (real parse_ignored with parse_off_newlines, parse_newline, '
             'parse_whitespace, UncText): for ALL lines of n code points inside a region (tabs, trailing blanks, non-ASCII, the marker text '
             'itself included) the line becomes CT_IGNORED chunks whose text is exactly the consumed code points, never containing the '
             'terminator, blank lines become one newline chunk with the exact count, and processing is not switched back on.',
        note='Bounds: quick n<=4, thorough n<=6. Enable marker set to a one-character custom text so that short lines can contain it; lines '
             'contain no "/" and no "#". Not decided: later passes skipping CT_IGNORED, regex markers, the output side.',
        design_ref='DESIGN.md section 4, C07'),
    'C02': dict(
        text='Bounded model checking of the tokenizer steps that produce whitespace, newline and continuation chunks (real parse_whitespace, '
             'parse_newline, parse_bs_newline over a TokenContext of n symbolic code points): every successful step makes progress, never '
             'reads past the input, swallows only whitespace, consumes maximal runs, counts LF / CR LF / CR breaks once each, and a failed '
             'step restores the position exactly; a backslash-newline becomes one CT_NL_CONT holding one backslash; a number token (parse_number) holds exactly '
             'the characters consumed; a newline inserted inside a directive is a backslash-newline (NL-PP).',
        note='Bounds: quick n<=4 (numbers n<=2), thorough n<=6; all language sets, all option values the closure reads. Found and fixed: D11 '
             '(number token 0h swallowed the next character). Not decided: word/punctuator steps, the ~40 passes between tokenizer and '
             'output, the output loop (no verdict, DESIGN 9.2).',
        design_ref='DESIGN.md section 4, C02'),
    'C06': dict(
        text='Bounded model checking with CBMC memory-safety instrumentation (bounds, pointer, division) and unwinding assertions of the '
             'encodable front of the pipeline on ARBITRARY input within the bound: the codec (decode_unicode and writers) and the '
             'tokenizer steps parse_whitespace / parse_newline / parse_bs_newline / parse_ignored / parse_string / parse_number: no out-of-bounds access, no uncaught '
             'exception, termination, progress on success and exact restore on failure.',
        note='Bounds: byte strings n<=4 (codec), code point sequences n<=4 (tokenizer steps); thorough 8 / 6. Not decided: the parser passes '
             'after tokenizing, indent_text, the convergence loops of uncrustify_file (a pre-existing hang on a Pawn "#define X" at end of '
             'file reported by an independent reviewer lies there), wall-clock limits.',
        design_ref='DESIGN.md section 4, C06'),
    'C20': dict(
        text='Bounded model checking of the kernels that own the counts: blank_line_max/blank_line_set for EVERY newline count and limit, and '
             'newlines_eat_start_end() on every chunk list of up to k chunks with all values of nl_start_of_file/_min and nl_end_of_file/_min: '
             'remove leaves no line break, force gives exactly the minimum, add raises to the minimum and never lowers, ignore and code '
             'fragments leave the ends alone; and can_increase_nl() lets the first/last newline of a file grow exactly when '
             'nl_start_of_file / nl_end_of_file is ignore (what makes the start/end counts exact after do_blank_lines).',
        note='Bounds: quick k<=3 chunks, thorough k<=4; newline counts 1..9, unbounded options in [0,64]. NOT decided (stated): a full run of '
             'do_blank_lines (the cap on every newline chunk) - CBMC did not finish on its list walks even for 2 chunks; the other nl_ passes.',
        design_ref='DESIGN.md section 4, C20'),
    'C16': dict(
        text='Bounded model checking of the value reader of numeric options (real read_number with strtol model, BoundedOption::validate, '
             'warnUnexpectedValue/warnIncompatibleReference): for ALL value texts of n characters, including references to other options '
             '(plain and negated) with arbitrary referenced values, a value is accepted iff it denotes an in-range number; a rejected value '
             'leaves the option untouched and produces a diagnostic; the option never leaves its documented range. validate() agrees with '
             'the declared bounds for every long value in every BoundedOption instantiation of options.h.',
        note='Bounds: quick n<=3 characters, thorough n<=5. find_option() replaced by a resolver over three reference options; OptionWarning '
             'counts. Not decided: split_args / process_option_line / file loop, the nl_max cross-option guard.',
        design_ref='DESIGN.md section 4, C16'),
    'C15': dict(
        text='Bounded model checking of the value-level round trip: for every value of the enumerated option types (iarf, line_end, token_pos) '
             'and bool, str() followed by read() restores the value without diagnostic (real to_string/convert_string tables generated from '
             'the tree); for bounded numeric options every in-range decimal or reference text is accepted with exactly the denoted value.',
        note='Not decided: string options and quoting (the known defect D4: save_option_file writes strings unescaped), custom keyword and '
             'file_ext directives, whole-file idempotence of --update-config, behavioural equivalence.',
        design_ref='DESIGN.md section 4, C15'),
    'C13': dict(
        text='Bounded model checking of the real in-place protocol (do_source_file, load_mem_file, file_content_matches, make_folders, '
             'backup_copy_file, backup_create_md5_file) over an in-memory libc model in which EVERY file operation is a crash point and a '
             'fault point (fopen NULL, write failing after k bytes, short fwrite, fclose losing the unflushed tail, rename/unlink/stat '
             'failing): for all contents within the bound, at every termination (return, exit, crash) the target holds the complete '
             'original or the complete formatted bytes; unless --no-backup, a replaced target implies a backup equal to the original; '
             'success is reported only if the target holds the formatted bytes. Crash points and fault schedules are solver variables.',
        note='Bounds: quick contents of 1 byte (2 bytes for the backup-fault instance), one crash point or one fault per run, modes concrete per '
             'instance; the thorough tier runs the same instances with a longer cap (deeper combinations did not reliably finish). Stubs: formatter writes an arbitrary fixed byte string (or fails), MD5 abstract injective digest, '
             'libc = harness/vp_fsmodel.h. Found and fixed: D3 (write errors ignored), D9 (backup fclose ignored).',
        design_ref='DESIGN.md section 4, C13'),
    'C14': dict(
        text='One inductive step of the backup protocol by bounded model checking of the real code over the file-system model: from an '
             'ARBITRARY state in which the md5 side file is absent or records some content X (and any stale backup/temp files), a --replace '
             'run leaves the md5 file describing exactly the content written, backs up the text found iff it differs from the recorded '
             'content (user edit or first run), and otherwise leaves the backup untouched. One step from an arbitrary invariant state covers '
             'histories of any length.',
        note='Bounds: contents of 1 byte (both tiers; 2-byte instances did not finish within the cap). Abstract injective MD5 assumed; hex formatting/parsing of the md5 file is '
             'the real code. Found and fixed: D2 (md5 taken before the rename). Not decided: crash points inside the step for the md5 record.',
        design_ref='DESIGN.md section 4, C14'),
    'C12': dict(
        text='Bounded model checking of the real comparison and of do_source_file in --check / --if-changed mode over the file-system model: '
             'bout_content_matches is byte equality for all inputs of the given lengths and prints FAIL/PASS consistently; --check performs no '
             'file-system mutation and opens nothing for writing, and counts a failure exactly when the bytes differ; --if-changed writes '
             'nothing when the bytes are equal and otherwise delivers exactly the formatted bytes.',
        note='Bounds: contents <=2 bytes; modes concrete per instance. Not decided: main() exit status computation and '
             'its rejection of --check with output options.',
        design_ref='DESIGN.md section 4, C12'),
    'C10': dict(
        text='Bounded model checking of the delivery funnel (real do_source_file/load_mem_file over the file-system model, formatter stubbed as '
             'writer of an arbitrary fixed byte string): in every output mode (in place with/without backup, -o, stdout) x --if-changed the '
             'formatter is run once on exactly the bytes of the file and its bytes arrive unmodified at the target; the source is untouched '
             'when output goes elsewhere.',
        note='Bounds: contents <=2 bytes. Not decided: main() argument dispatch, stdin delivery, observer options (-p, -L, --dump-steps), '
             'environment/locale/ASLR independence (no solver formulation).',
        design_ref='DESIGN.md section 4, C10'),
    'C19': dict(
        text='Bounded model checking of the WHOLE real decision function do_space() (3 400 source lines): on a four-chunk neighbourhood with '
             'every token kind, parent kind, flag valuation and level symbolic, and every option it reads an independent symbolic value, the '
             'value returned at each of the ~300 rule sites that log the name of an IARF option equals the configured value of that very '
             'option (one assertion per site, generated from the source on every run) - except at the protection sites the statement '
             'exempts, where it may only be strengthened. Returning the value of another option is caught for some valuation.',
        note='Bound: one neighbourhood of 4 chunks, texts of 1 character (both tiers). The two table fall-back scans at the end of '
             'do_space are cut by a mechanical source patch (they return constants under non-option names). Not decided: application to '
             'columns (space_text), the fusion guard, later passes.',
        design_ref='DESIGN.md section 4, C19'),
    'C01': dict(
        text='Only one of the meaning-critical local mechanisms is decided: a newline inserted between two chunks of a preprocessor directive '
             '(real newline_add_before/newline_add_after with setup_newline_add and undo_one_liner) is a backslash-newline chunk flagged as '
             'preprocessor, plain code gets a plain newline, exactly one line break, inserted exactly between the two chunks, token texts '
             'untouched - for all flag/level/kind valuations of the pair. Compile equivalence itself is NOT decided.',
        note='Restricted claim (DESIGN.md 9.2): no compiler semantics in the solver and the ~40 passes cannot be encoded; the fusion guard, '
             'brace removal and paren insertion obligations of the plan were not built.',
        design_ref='DESIGN.md section 4 C01, section 9.2'),
    'C03': dict(
        text='Bounded model checking of the string-literal tokenizer step (real parse_string with parse_suffix over n symbolic code points '
             'starting with a quote, escape options and languages symbolic): the chunk text is exactly the characters consumed, line breaks '
             'inside the literal are counted once each (LF, CR LF, CR), the chunk kind reflects multi-line literals, progress is made and '
             'the input is never over-read.',
        note='Bounds: quick n<=4, thorough n<=6; string_replace_tab_chars=false (premise of C03). Found and fixed: D10 (NUL appended after a '
             'bare CR at end of input). Not decided: comments (parse_comment, output_comment_*), raw / C# / D strings, the literal writer.',
        design_ref='DESIGN.md section 4 C03, section 9.2'),
    'C11': dict(
        text='One inductive step by bounded model checking of the real per-file reset: from an ARBITRARY valuation of the per-file state of '
             'cpd that the tokenizer, newline passes and output stage read before writing (open disabled region, preprocessor level/state, '
             'terminator census, change counters, captured output) and a non-empty chunk list, uncrustify_end() restores the values of a '
             'fresh process and empties list and buffer. An arbitrary pre-state stands for any number and kind of previous files.',
        note='Not decided: state outside cpd or not owned by uncrustify_end (sort_imports caches, Qt override state, last_char, lang_flags '
             'under -l: the property text itself names that leak), passes that are not encoded.',
        design_ref='DESIGN.md section 4 C11, section 9.2'),
}
