/* Symbolic option values (DESIGN.md 3.2). The engine scans the IR closure of the
 * harness entry for the option objects the real code reads and generates
 * vp_havoc_gen.h with one VP_HAVOC_OPT(name) per object (VP_PIN_OPT for the ones the
 * obligation pins at their default). vp_havoc_options() assigns every one of them a
 * nondeterministic value inside the range its declaration in options.h documents. */
#ifndef VP_OPTS_H_INCLUDED
#define VP_OPTS_H_INCLUDED
#include "option.h"
#include "options.h"
#ifndef VP_UNBOUNDED_MAX
#define VP_UNBOUNDED_MAX 64   /* unbounded numeric options are explored in [0,64] / [-64,64] (stated bound) */
#endif
namespace vp {
static inline void havoc(uncrustify::Option<bool> &o) { o = vp_bool(); }
static inline void havoc(uncrustify::Option<uncrustify::iarf_e> &o) { o = (uncrustify::iarf_e)vp_range(0, 3); }
static inline void havoc(uncrustify::Option<uncrustify::line_end_e> &o) { o = (uncrustify::line_end_e)vp_range(0, 3); }
static inline void havoc(uncrustify::Option<uncrustify::token_pos_e> &o)
{
   unsigned v = (unsigned)vp_range(0, 16);
   vp_assume(v == 0 || v == 1 || v == 2 || v == 4 || v == 8 || v == 16 || v == 5 || v == 6 || v == 9 || v == 10);
   o = (uncrustify::token_pos_e)v;
}
static inline void havoc(uncrustify::Option<unsigned> &o) { o = (unsigned)vp_range(0, VP_UNBOUNDED_MAX); }
static inline void havoc(uncrustify::Option<signed> &o) { o = (signed)((long)vp_range(0, 2 * VP_UNBOUNDED_MAX) - VP_UNBOUNDED_MAX); }
static inline void havoc(uncrustify::Option<std::string> &) {}   /* string options stay at their default (stated) */
template<typename T, T mn, T mx>
static inline void havoc(uncrustify::BoundedOption<T, mn, mx> &o)
{
   static_cast<uncrustify::Option<T> &>(o) = (T)((long)vp_range(0, (uint64_t)((long)mx - (long)mn)) + (long)mn);
}
/* pin an option to a concrete value (works for BoundedOption, whose implicit operator= hides Option<T>::operator=) */
template<typename T, typename V> static inline void set(uncrustify::Option<T> &o, V v) { o = (T)v; }
}
#define VP_HAVOC_OPT(name) vp::havoc(uncrustify::options::name);
#define VP_PIN_OPT(name)
static inline void vp_havoc_options()
{
#include "vp_havoc_gen.h"
}
#endif
