"""SP-*: spacing decisions (src/space.cpp do_space)."""
import re
TUS = ['chunk.cpp', 'unc_text.cpp', 'unicode.cpp', 'unc_ctype.cpp', 'punctuators.cpp', 'token_is_within_trailing_return.cpp', 'options_for_QT.cpp',
       'language_tools.cpp', '$BUILD/src/options.cpp']
NOLOGTEXT = ['_Z11encode_utf8iRSt9vp_vectorIhvE', 'snprintf']   # snprintf only formats the rule text of the two table fall-backs for the log


# protection list of the property statement ("two words, 'return'/'case' and an operand, a macro name and the
# parenthesis opening its body"): option names whose Remove may be overridden where the tokens would fuse
PROTECT = {'sp_return', 'sp_case_label', 'sp_macro', 'sp_macro_func', 'sp_inside_angle', 'sp_before_ellipsis', 'sp_after_ellipsis'}


def gen_headers(prep):
    """rule sites of do_space(): source line of every log_rule("name") whose name is an IARF option (regenerated every run)"""
    opts = {}
    for m in re.finditer(r'extern\s+Option<\s*iarf_e\s*>\s*\n?\s*(\w+)\s*;', open('/repo/src/options.h').read()):
        opts[m.group(1)] = 1
    lines = open('/repo/src/space.cpp').read().split('\n')
    body = '/* rule sites of src/space.cpp: line -> IARF option named by log_rule() at that line */\n'
    n_all = 0
    for i, l in enumerate(lines, 1):
        m = re.search(r'\blog_rule\("([^"]+)"\)', l)
        if not m:
            continue
        n_all += 1
        if m.group(1) in opts:
            body += 'VP_RULE(%d, %s, %d)\n' % (i, m.group(1), 1 if m.group(1) in PROTECT else 0)
    body += '/* %d log_rule sites in the file */\n' % n_all
    return {'vp_sp_rules_gen.h': body}


# the two table fall-backs at the end of do_space (no_space_table: 35 entries, add_space_table: 291 entries) return the
# constants REMOVE / ADD under rule texts that are not option names; their 291-iteration scan does not fit the solver's
# memory together with the rest of do_space, so the scan is cut to one never-matching entry by a mechanical source patch
PATCH = [dict(file='space.cpp', subs=[
    (r'for \(auto it : no_space_table\)', 'static const no_space_table_t vp_cut1[1] = { { CT_TOKEN_COUNT_, CT_TOKEN_COUNT_ } }; for (auto it : vp_cut1)', 1),
    (r'for \(auto it : add_space_table\)', 'static const no_space_table_t vp_cut2[1] = { { CT_TOKEN_COUNT_, CT_TOKEN_COUNT_ } }; for (auto it : vp_cut2)', 1)])]
COMMON = dict(harness='sp.cpp', patch_sources=PATCH, mem_gb=34, max_cex=60, maxnd=700, vector_len=700, extra_tus=TUS, havoc_options=True, noop=NOLOGTEXT, gen_headers=gen_headers,
              assumptions=['neighbourhood of four chunks [p, first, second, n], all on one line; kinds and parent kinds over the whole token enumeration, all flag bits, '
                           'levels 0..3, texts of TLEN symbolic ASCII characters', 'log_rule2/log_rule4 record the call site instead of printing', 'the no_space_table / add_space_table fall-back scans at the end of do_space are cut (they return constants under non-option rule texts)',
                           'container models, logging helpers empty, UncText log text not maintained'])
OBLIGATIONS = [
    dict(COMMON, id='SP-ATTR', entry='vp_sp_attr',
         instances=lambda tier: [dict(name='t%d' % t, bound='4-chunk neighbourhood, texts of %d characters, every token kind / parent kind / flag valuation, every value of every option do_space reads' % t,
                                      unwind=6, defs=dict(TLEN=t, VP_CAP_INT=4, VP_CAP_U8=8), timeout=2400) for t in ((1,) if tier == 'quick' else (1, 2))]),
]
PROPERTIES = {
    'C19': dict(obligations=['SP-ATTR'],
                not_decided='application of the decision to columns (space_text), the fusion guard (ensure_force_space), later passes that move columns; rule names that are not IARF options are not attributed.'),
}
