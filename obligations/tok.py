"""TOK-*: tokenizer sub-parsers (src/tokenizer/tokenize.cpp)."""
TUS = ['chunk.cpp', 'unc_text.cpp', 'unicode.cpp', 'unc_ctype.cpp', 'option.cpp', '$BUILD/src/option_enum.cpp', '$BUILD/src/options.cpp', '$HARNESS/chartable.cpp', '$HARNESS/stdstr.cpp']
CUT = r'OptionWarning|regex|_ZNSt7__cxx1112basic_stringIw|wstring|_ZNSt6locale|St5ctypeI|_ZSt9use_facet'
NOLOGTEXT = ['_Z11encode_utf8iRSt9vp_vectorIhvE']   # UncText re-encodes its whole log text on every append; these obligations never read it
COMMON = dict(harness='tok.cpp', extra_tus=TUS, havoc_options=True, cut_re=CUT, noop=NOLOGTEXT,
              pinned_options=['processing_cmt_as_regex'],
              assumptions=['input: N code points in [1,0x10FFFF] (an embedded NUL is refused before tokenizing)',
                           'regex markers off (processing_cmt_as_regex=false): std::regex code is cut out of the closure and reaching it is flagged',
                           'string options at their defaults unless stated', 'container models, logging helpers empty', 'UncText log text (used for diagnostics only) not maintained: encode_utf8 is a no-op here'])


def n_instances(lo, hi_q, hi_t, extra=None):
    def f(tier):
        out = []
        for n in range(lo, (hi_q if tier == 'quick' else hi_t) + 1):
            d = dict(N=n, VP_CAP_INT=max(4, n + 1), VP_CAP_U8=max(8, 3 * n + 4))
            d.update(extra or {})
            out.append(dict(name='n%d' % n, bound='all sequences of %d code points, all option values the closure reads, all language sets' % n,
                            unwind=max(n + 3, 8), unwindset={'strlen|strcmp|strchr|_M_construct|char_traits': 24, r'parse_number\w*\.(4|8)$': 16, 'memcmp|UncText4find|startswith': 24}, defs=d))
        return out
    return f


OBLIGATIONS = [
    dict(COMMON, id='TOK-WS', entry='vp_tok_ws', instances=n_instances(1, 4, 6)),
    dict(COMMON, id='TOK-NL', entry='vp_tok_nl', instances=n_instances(1, 4, 6)),
    dict(COMMON, id='TOK-BSNL', entry='vp_tok_bsnl', instances=n_instances(2, 4, 6)),
    dict(COMMON, id='TOK-IGN', entry='vp_tok_ign', instances=n_instances(1, 4, 6), keep=['vp_stub_parse_comment'],
         redirect={'_ZL13parse_commentR12TokenContextR5Chunk': 'vp_stub_parse_comment'},
         assumptions=COMMON['assumptions'] + ['enable marker set to the one-character text "@"; the line contains no "/" and no "#"']),
]
OBLIGATIONS.append(dict(COMMON, id='TOK-STR', entry='vp_tok_str', instances=n_instances(1, 4, 6), extra_tus=TUS + ['punctuators.cpp', 'keywords.cpp', 'language_tools.cpp'],
                        assumptions=COMMON['assumptions'] + ['string_replace_tab_chars=false (premise of C03)']))
OBLIGATIONS.append(dict(COMMON, id='TOK-NUM', entry='vp_tok_num', instances=n_instances(1, 2, 2), extra_tus=TUS + ['punctuators.cpp', 'keywords.cpp', 'language_tools.cpp']))
OBLIGATIONS.append(dict(COMMON, id='TOK-CMT', entry='vp_tok_cmt', instances=n_instances(2, 3, 5), extra_tus=TUS + ['punctuators.cpp', 'keywords.cpp', 'language_tools.cpp']))
import os as _os
_EXP = bool(_os.environ.get('VP_EXPERIMENTAL'))
PROPERTIES = {
    'C03': dict(obligations=['TOK-STR'] + (['TOK-CMT'] if _EXP else []), not_decided='comments (parse_comment and the comment writers output_comment_*), raw strings / C# / D strings, the literal writer (add_text with is_literal).'),
    'C07': dict(obligations=['TOK-IGN'], not_decided='that every later pass skips CT_IGNORED chunks; regex markers; the writer side (OUT-IGN).'),
    'C08': dict(obligations=['TOK-WS', 'TOK-NL', 'TOK-BSNL', 'TOK-IGN']),
    'C02': dict(obligations=['TOK-WS', 'TOK-NL', 'TOK-BSNL', 'TOK-NUM'], not_decided='the ~40 passes between tokenizer and output.'),
    'C06': dict(obligations=['TOK-WS', 'TOK-NL', 'TOK-BSNL', 'TOK-IGN', 'TOK-STR', 'TOK-NUM'], not_decided='parser passes after tokenizing, indent_text, the convergence loops.'),
}
