#!/bin/sh
# Runs every claimed quick check on the current /repo tree (two lanes), writes evidence/<id>.json, prints a summary.
cd "$(dirname "$0")/.." || exit 2
TIER=${1:-quick}
mkdir -p /tmp/vp_runall
lane() { for p in "$@"; do bin/check "$p" --tier "$TIER" > /tmp/vp_runall/$p.log 2>&1; echo "$p exit=$? $(tail -1 /tmp/vp_runall/$p.log)"; done; }
lane C19 C13 C10 C14 C12 C11 > /tmp/vp_runall/lane1.txt &
lane C01 C02 C03 C05 C06 C07 C08 C09 C15 C16 C17 C18 C20 > /tmp/vp_runall/lane2.txt &
wait
cat /tmp/vp_runall/lane1.txt /tmp/vp_runall/lane2.txt
