/* Fixed-capacity models of std::deque / std::vector for verification builds.
 *
 * libstdc++'s heap-backed containers make bounded symbolic execution blow up
 * (measured: no verdict for 2 input bytes). The container library is
 * *environment*, not uncrustify, so for the solver build the unmodified
 * uncrustify sources are compiled against these array-backed models:
 * same public API, every access bounds-asserted (vp_abort = what libstdc++
 * would do with _GLIBCXX_ASSERTIONS / at() throwing), exceeding the capacity is
 * reported through vp_capacity() => the run is INCONCLUSIVE, never a pass.
 *
 * Usage (see models/vp_prelude.h): all standard headers are included first,
 * then `#define deque vp_deque` / `#define vector vp_vector`, then the real
 * uncrustify .cpp files. The native reference build (-DVP_REAL_STL) uses the
 * real libstdc++ containers, so a behavioural difference between model and
 * library shows up in translator validation.
 */
#ifndef VPSTL_H_INCLUDED
#define VPSTL_H_INCLUDED
#include <cstddef>
#include <iterator>
#include <initializer_list>
#include <utility>
#include "vp.h"


namespace std {
template<class T, int CAP>
struct vp_seq
{
   typedef T               value_type;
   typedef T              *iterator;
   typedef const T        *const_iterator;
   typedef T              &reference;
   typedef const T        &const_reference;
   typedef size_t          size_type;
   typedef ptrdiff_t       difference_type;
   typedef std::reverse_iterator<iterator>       reverse_iterator;
   typedef std::reverse_iterator<const_iterator> const_reverse_iterator;

   T      m_a[CAP];
   size_t m_n;

   vp_seq() : m_a(), m_n(0) {}
   explicit vp_seq(size_t n) : m_a(), m_n(0) { resize(n); }
   vp_seq(size_t n, const T &v) : m_a(), m_n(0) { resize(n, v); }
   vp_seq(std::initializer_list<T> il) : m_a(), m_n(0) { for (const T &v : il) { push_back(v); } }
   template<class It, class = typename std::iterator_traits<It>::value_type>
   vp_seq(It first, It last) : m_a(), m_n(0) { for ( ; first != last; ++first) { push_back(*first); } }

   size_t size() const { return m_n; }
   bool empty() const { return m_n == 0; }
   size_t capacity() const { return CAP; }
   size_t max_size() const { return CAP; }
   void reserve(size_t n) { if (n > (size_t)CAP) { vp_capacity("reserve"); } }
   void shrink_to_fit() {}
   void clear() { m_n = 0; }

   void resize(size_t n)
   {
      if (n > (size_t)CAP) { vp_capacity("resize"); return; }
      for (size_t i = m_n; i < n; i++) { m_a[i] = T(); }
      m_n = n;
   }
   void resize(size_t n, const T &v)
   {
      if (n > (size_t)CAP) { vp_capacity("resize"); return; }
      for (size_t i = m_n; i < n; i++) { m_a[i] = v; }
      m_n = n;
   }
   void assign(size_t n, const T &v) { m_n = 0; resize(n, v); }
   template<class It, class = typename std::iterator_traits<It>::value_type>
   void assign(It first, It last) { m_n = 0; for ( ; first != last; ++first) { push_back(*first); } }

   void push_back(const T &v)
   {
      if (m_n >= (size_t)CAP) { vp_capacity("push_back"); return; }
      m_a[m_n] = v;
      m_n++;
   }
   template<class... Args> void emplace_back(Args&&... args) { push_back(T(std::forward<Args>(args)...)); }
   void push_front(const T &v) { insert(begin(), v); }
   void pop_back()
   {
      if (m_n == 0) { vp_abort("pop_back on empty container"); return; }
      m_n--;
   }
   void pop_front()
   {
      if (m_n == 0) { vp_abort("pop_front on empty container"); return; }
      for (size_t i = 1; i < m_n; i++) { m_a[i - 1] = m_a[i]; }
      m_n--;
   }
   T &operator[](size_t i)
   {
      if (i >= m_n) { vp_abort("container index out of range"); }
      return m_a[i];
   }
   const T &operator[](size_t i) const
   {
      if (i >= m_n) { vp_abort("container index out of range"); }
      return m_a[i];
   }
   T &at(size_t i)
   {
      if (i >= m_n) { vp_abort("at(): out_of_range thrown"); }
      return m_a[i];
   }
   const T &at(size_t i) const
   {
      if (i >= m_n) { vp_abort("at(): out_of_range thrown"); }
      return m_a[i];
   }
   T &front() { if (m_n == 0) { vp_abort("front on empty container"); } return m_a[0]; }
   const T &front() const { if (m_n == 0) { vp_abort("front on empty container"); } return m_a[0]; }
   T &back() { if (m_n == 0) { vp_abort("back on empty container"); } return m_a[m_n ? m_n - 1 : 0]; }
   const T &back() const { if (m_n == 0) { vp_abort("back on empty container"); } return m_a[m_n ? m_n - 1 : 0]; }
   T *data() { return m_a; }
   const T *data() const { return m_a; }

   iterator begin() { return m_a; }
   iterator end() { return m_a + m_n; }
   const_iterator begin() const { return m_a; }
   const_iterator end() const { return m_a + m_n; }
   const_iterator cbegin() const { return m_a; }
   const_iterator cend() const { return m_a + m_n; }
   reverse_iterator rbegin() { return reverse_iterator(end()); }
   reverse_iterator rend() { return reverse_iterator(begin()); }
   const_reverse_iterator rbegin() const { return const_reverse_iterator(end()); }
   const_reverse_iterator rend() const { return const_reverse_iterator(begin()); }
   const_reverse_iterator crbegin() const { return const_reverse_iterator(end()); }
   const_reverse_iterator crend() const { return const_reverse_iterator(begin()); }

   iterator insert(const_iterator pos, const T &v)
   {
      size_t idx = (size_t)(pos - m_a);
      if (idx > m_n) { vp_abort("insert position out of range"); return m_a; }
      if (m_n >= (size_t)CAP) { vp_capacity("insert"); return m_a + idx; }
      for (size_t i = m_n; i > idx; i--) { m_a[i] = m_a[i - 1]; }
      m_a[idx] = v;
      m_n++;
      return m_a + idx;
   }
   iterator insert(const_iterator pos, size_t cnt, const T &v)
   {
      size_t idx = (size_t)(pos - m_a);
      for (size_t k = 0; k < cnt; k++) { insert(m_a + idx, v); }
      return m_a + idx;
   }
   template<class It, class = typename std::iterator_traits<It>::value_type>
   iterator insert(const_iterator pos, It first, It last)
   {
      size_t idx = (size_t)(pos - m_a);
      size_t k   = idx;
      for ( ; first != last; ++first) { insert(m_a + k, *first); k++; }
      return m_a + idx;
   }
   iterator erase(const_iterator pos)
   {
      size_t idx = (size_t)(pos - m_a);
      if (idx >= m_n) { vp_abort("erase position out of range"); return m_a; }
      for (size_t i = idx + 1; i < m_n; i++) { m_a[i - 1] = m_a[i]; }
      m_n--;
      return m_a + idx;
   }
   iterator erase(const_iterator first, const_iterator last)
   {
      size_t a = (size_t)(first - m_a);
      size_t b = (size_t)(last - m_a);
      if (a > b || b > m_n) { vp_abort("erase range out of range"); return m_a; }
      size_t d = b - a;
      if (d == 0) { return m_a + a; }
      for (size_t i = b; i < m_n; i++) { m_a[i - d] = m_a[i]; }
      m_n -= d;
      return m_a + a;
   }
   void swap(vp_seq &o)
   {
      vp_seq tmp = *this;
      *this = o;
      o = tmp;
   }
   bool operator==(const vp_seq &o) const
   {
      if (m_n != o.m_n) { return false; }
      for (size_t i = 0; i < m_n; i++) { if (!(m_a[i] == o.m_a[i])) { return false; } }
      return true;
   }
   bool operator!=(const vp_seq &o) const { return !(*this == o); }
};

template<class T, class A = void>
struct vp_deque : public vp_seq<T, vp_cap<T>::value>
{
   typedef vp_seq<T, vp_cap<T>::value> base;
   vp_deque() : base() {}
   explicit vp_deque(size_t n) : base(n) {}
   vp_deque(size_t n, const T &v) : base(n, v) {}
   vp_deque(std::initializer_list<T> il) : base(il) {}
   template<class It, class = typename std::iterator_traits<It>::value_type>
   vp_deque(It first, It last) : base(first, last) {}
};

template<class T, class A = void>
struct vp_vector : public vp_seq<T, vp_cap<T>::value>
{
   typedef vp_seq<T, vp_cap<T>::value> base;
   vp_vector() : base() {}
   explicit vp_vector(size_t n) : base(n) {}
   vp_vector(size_t n, const T &v) : base(n, v) {}
   vp_vector(std::initializer_list<T> il) : base(il) {}
   template<class It, class = typename std::iterator_traits<It>::value_type>
   vp_vector(It first, It last) : base(first, last) {}
};
} // namespace std
#endif
