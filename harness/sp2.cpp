/* SP-APPLY (C19) and SP-FUSE (C01, C02, C19): the real space_text() - application of a spacing decision
 * to columns and the "general safety check" that forces a space between two chunks that would lex
 * differently when written back to back - on the list [A, B, newline]. do_space() is detached by a
 * source patch and replaced (both builds) by a stub returning an ARBITRARY decision (av, min_sp): the
 * obligations hold whatever the decision function says (its own correctness is SP-ATTR). */
#define private public
#define protected public
#include "patched/space.cpp"
#undef private
#undef protected
#include "vp_opts.h"
VP_ZERO_GLOBAL(cp_data_t, cpd);

#ifndef L1
#define L1 1
#endif
#ifndef L2
#define L2 1
#endif
static unsigned vp_av;
static int      vp_minsp;
static iarf_e do_space(Chunk *first, Chunk *second, int &min_sp)
{
   (void)first; (void)second;
   min_sp = vp_minsp;
   return (iarf_e)vp_av;
}
void log_rule2(const char *, size_t, const char *, Chunk *, Chunk *) {}
void log_rule4(const char *, Chunk *) {}

/* ---- reference lexical classes, written from ISO C / C++ [lex.operators] + comment openers,
 *      independently of symbols_table.h / punctuator_table.h */
static bool ref_wordch(int c) { return (c >= 'a' && c <= 'z') || (c >= 'A' && c <= 'Z') || (c >= '0' && c <= '9') || c == '_'; }
static bool ref_punct1(int a) { return a == '!' || a == '%' || a == '&' || a == '(' || a == ')' || a == '*' || a == '+' || a == ',' || a == '-' || a == '.' || a == '/' || a == ':' || a == ';' || a == '<' || a == '=' || a == '>' || a == '?' || a == '[' || a == ']' || a == '^' || a == '{' || a == '|' || a == '}' || a == '~' || a == '#'; }
static bool ref_punct2(int a, int b)
{
   if (b == '=') { return a == '!' || a == '%' || a == '&' || a == '*' || a == '+' || a == '-' || a == '/' || a == '<' || a == '=' || a == '>' || a == '^' || a == '|'; }
   if (a == b) { return a == '&' || a == '+' || a == '-' || a == ':' || a == '<' || a == '>' || a == '|' || a == '#' || a == '/'; }   /* && ++ -- :: << >> || ## and the comment opener // */
   if (a == '-' && b == '>') { return true; }
   if (a == '.' && b == '*') { return true; }
   if (a == '/' && b == '*') { return true; }       /* comment opener */
   return false;
}
static bool ref_punct3(int a, int b, int c)
{
   if (a == '<' && b == '<' && c == '=') { return true; }
   if (a == '>' && b == '>' && c == '=') { return true; }
   if (a == '.' && b == '.' && c == '.') { return true; }
   if (a == '-' && b == '>' && c == '*') { return true; }
   if (a == '<' && b == '=' && c == '>') { return true; }
   return false;
}
static bool ref_is_punct(const int *s, int n)
{
   if (n == 1) { return ref_punct1(s[0]); }
   if (n == 2) { return ref_punct2(s[0], s[1]); }
   if (n == 3) { return ref_punct3(s[0], s[1], s[2]); }
   return false;
}

extern "C" void vp_sp_apply()
{
   vp_havoc_options();
   vp::set(options::use_options_overriding_for_qt_macros, false);     /* Qt SIGNAL/SLOT option juggling is outside this obligation */
   cpd.lang_flags = vp_bool() ? (size_t)e_LANG_C : (size_t)e_LANG_CPP;
   int t[L1 + L2];
   for (int i = 0; i < L1 + L2; i++) { t[i] = (int)vp_range(33, 126); }
   /* A and B are single tokens of the same lexical class: both words, or both punctuators of the reference list */
   bool w1 = true, w2 = true;
   for (int i = 0; i < L1; i++) { if (!ref_wordch(t[i])) { w1 = false; } }
   for (int i = 0; i < L2; i++) { if (!ref_wordch(t[L1 + i])) { w2 = false; } }
   bool p1 = ref_is_punct(t, L1), p2 = ref_is_punct(t + L1, L2);
   vp_assume((w1 && w2) || (p1 && p2));
   vp_av    = (unsigned)vp_range(0, 3);
   vp_minsp = (int)vp_range(0, 3);
   size_t gap0 = (size_t)vp_range(0, 2);
   Chunk *A, *B;
   {
      Chunk c;
      c.SetType((E_Token)vp_range(0, CT_TOKEN_COUNT_ - 1));
      c.SetOrigLine(1); c.SetOrigCol(1); c.SetOrigColEnd(1 + L1); c.SetColumn(1); c.SetPpLevel(0);
      for (int i = 0; i < L1; i++) { c.Str().append(t[i]); }
      A = c.CopyAndAddBefore(Chunk::NullChunkPtr);
   }
   {
      Chunk c;
      c.SetType((E_Token)vp_range(0, CT_TOKEN_COUNT_ - 1));
      c.SetOrigLine(1); c.SetOrigCol(1 + L1 + gap0); c.SetOrigColEnd(1 + L1 + gap0 + L2); c.SetColumn(1 + L1 + gap0); c.SetPpLevel(0);
      for (int i = 0; i < L2; i++) { c.Str().append(t[L1 + i]); }
      B = c.CopyAndAddBefore(Chunk::NullChunkPtr);
   }
   {
      Chunk c;
      c.SetType(CT_NEWLINE); c.SetNlCount(1); c.SetOrigLine(1); c.SetOrigCol(1 + L1 + gap0 + L2); c.SetPpLevel(0);
      c.CopyAndAddBefore(Chunk::NullChunkPtr);
   }
   /* ordinary code tokens: not comments, newlines, virtual braces or ignored text (their spacing is governed elsewhere) */
   vp_assume(!A->IsComment() && !B->IsComment() && !A->IsNewline() && !B->IsNewline() && !A->IsVBrace() && !B->IsVBrace());
   vp_assume(A->IsNot(CT_IGNORED) && B->IsNot(CT_IGNORED) && A->IsNot(CT_JUNK) && B->IsNot(CT_JUNK));
   vp_observe("A-text0", (uint64_t)(unsigned char)A->Text()[0]);
   vp_observe("A-len", A->Len());
   vp_observe("kw2", CharTable::IsKw2(A->GetStr()[0]));
   { char b[4] = { (char)t[0], (char)t[1], 0, 0 }; const chunk_tag_t *ct = find_punctuator(b, cpd.lang_flags); vp_observe("punct-found", ct != nullptr); if (ct) { vp_observe("taglen", strlen(ct->tag)); } }
   space_text();
   size_t gap    = B->GetColumn() - (A->GetColumn() + L1);
   bool   forced = A->TestFlags(PCF_FORCE_SPACE);
   unsigned av   = vp_av | (forced ? (unsigned)IARF_ADD : 0u);
   size_t   msp  = (size_t)(vp_minsp > 1 ? vp_minsp : 1);
   vp_assert(B->GetColumn() >= A->GetColumn() + L1, "C02:second token placed on top of the first (columns overlap)");
   /* ---- SP-APPLY */
   if (av == (unsigned)IARF_REMOVE) { vp_assert(gap == 0, "C19:decision Remove but a gap was left"); }
   if (av == (unsigned)IARF_FORCE) { vp_assert(gap == msp, "C19:decision Force but the gap is not exactly the requested number of spaces"); }
   if (av == (unsigned)IARF_ADD) { vp_assert(gap >= msp && gap == (gap0 > msp ? gap0 : msp), "C19:decision Add: gap smaller than requested, or original spacing not kept"); }
   if (av == (unsigned)IARF_IGNORE) { vp_assert(gap == gap0, "C19:decision Ignore but the original spacing was changed"); }
   /* ---- SP-FUSE: would the two texts written back to back lex differently? */
   bool hazard = false;
   if (w1 && w2) { hazard = true; }
   else
   {
      /* maximal munch: some punctuator of the reference list starts at A and is longer than A */
      if (L1 + 1 <= 3 && L2 >= 1 && ref_is_punct(t, L1 + 1)) { hazard = true; }
      if (L1 + 2 <= 3 && L2 >= 2 && ref_is_punct(t, L1 + 2)) { hazard = true; }
      /* pairs that re-lex to the same meaning: '>' '>' closing two template lists where the language allows it */
      if (A->Is(CT_ANGLE_CLOSE) && B->Is(CT_ANGLE_CLOSE) && L1 == 1 && L2 == 1 && t[0] == '>' && t[1] == '>'
          && (cpd.lang_flags != (size_t)e_LANG_C) && options::sp_permit_cpp11_shift()) { hazard = false; }
   }
   if (hazard)
   {
      vp_assert(gap >= 1, "C01:two tokens that would lex differently back to back were left without a space");
      vp_witness("opt:hazard");
   }
   vp_witness("end");
}
