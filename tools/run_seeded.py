#!/usr/bin/env python3
"""Applies every seeded change under /verif/seeded to /repo (git apply), runs the quick check of the property it
breaks (plus other properties whose obligations cover the same code), records whether a VIOLATION was reported,
and reverts the change (git checkout). Never run concurrently with another check."""
import json, os, subprocess, sys, time
V = os.path.dirname(os.path.dirname(os.path.abspath(__file__)))
EXTRA = {'C08-parse-ignored-cr': ['C07', 'C08'], 'C13-backup-shortwrite': ['C13'], 'C10-content-matches': ['C10'], 'C02-strip-guard-index': ['C02', 'C03'],
         'C03-strip-one-blank': ['C03', 'C02'], 'C17-keep-tabs-first-token': ['C17'], 'C09-encode-range': ['C09']}
only = sys.argv[1:]
res_path = os.path.join(V, 'seeded', 'results.json')
results = json.load(open(res_path)) if os.path.exists(res_path) else {}
for name in sorted(os.listdir(os.path.join(V, 'seeded'))):
    d = os.path.join(V, 'seeded', name)
    if not os.path.isdir(d) or (only and name not in only):
        continue
    meta = json.load(open(os.path.join(d, 'meta.json')))
    props = EXTRA.get(name, [meta['property']])
    assert subprocess.run(['git', '-C', '/repo', 'status', '--porcelain', '--untracked-files=no'], capture_output=True, text=True).stdout.strip() == '', '/repo not clean'
    subprocess.run(['git', '-C', '/repo', 'apply', os.path.join(d, 'patch.diff')], check=True)
    out = {}
    try:
        for p in props:
            t0 = time.time()
            r = subprocess.run([os.path.join(V, 'bin', 'check'), p, '--tier', 'quick', '--no-evidence'], cwd=V, capture_output=True, text=True)
            lines = [l for l in r.stdout.split('\n') if l.startswith(('VIOLATION', '  obligation', 'INCONCLUSIVE'))]
            out[p] = dict(exit=r.returncode, detected=(r.returncode == 1), seconds=round(time.time() - t0), lines=[l[:300] for l in lines[:6]])
            print(name, p, 'exit', r.returncode, flush=True)
    finally:
        subprocess.run(['git', '-C', '/repo', 'checkout', '--', '.'], check=True)
    results[name] = dict(property=meta['property'], checks=out, detected=any(v['detected'] for v in out.values()))
    json.dump(results, open(res_path, 'w'), indent=1)
print(json.dumps({k: v['detected'] for k, v in results.items()}, indent=1))
