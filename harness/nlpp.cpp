/* NL-PP (C01, C02): a newline inserted between two chunks of a preprocessor directive must be a
 * backslash-newline, otherwise the directive (macro body) would be cut in two.
 * Real code: src/newlines/add.cpp (newline_add_before / newline_add_after),
 * src/newlines/setup_newline_add.cpp, src/newlines/one_liner.cpp, src/chunk.cpp. */
#define private public
#define protected public
#include "/repo/src/newlines/add.cpp"
#undef LCURRENT
#include "/repo/src/newlines/setup_newline_add.cpp"
#undef private
#undef protected
#include "vp_opts.h"
VP_ZERO_GLOBAL(cp_data_t, cpd);

static Chunk *vp_word(int i, int ch)
{
   Chunk c;
   c.SetType(vp_bool() ? CT_WORD : CT_SEMICOLON);
   c.SetOrigLine(1);
   c.SetOrigCol(1 + 2 * i);
   c.SetOrigColEnd(2 + 2 * i);
   c.SetPpLevel(0);
   c.SetLevel((size_t)vp_range(0, 2));
   c.SetBraceLevel((size_t)vp_range(0, 2));
   uint64_t f = vp_nondet();
#define VP_BIT(n, flag) if ((f >> (n)) & 1) { c.m_flags |= (flag); }
   VP_BIT(0, PCF_IN_PREPROC) VP_BIT(1, PCF_ONE_LINER) VP_BIT(2, PCF_IN_CLASS) VP_BIT(3, PCF_IN_STRUCT) VP_BIT(4, PCF_STMT_START) VP_BIT(5, PCF_EXPR_START)
   c.Str().append(ch);
   return c.CopyAndAddBefore(Chunk::NullChunkPtr);
}
extern "C" void vp_nl_pp()
{
   vp_havoc_options();
   Chunk *a = vp_word(0, 'a');
   Chunk *b = vp_word(1, 'b');
   bool   in_pp = a->TestFlags(PCF_IN_PREPROC) && b->TestFlags(PCF_IN_PREPROC);
   Chunk *nl    = vp_bool() ? newline_add_before(b) : newline_add_after(a);
   vp_assert(nl->IsNotNullChunk() && a->GetNext() == nl && nl->GetNext() == b && b->GetPrev() == nl && nl->GetPrev() == a,
             "C02:newline not inserted exactly between the two chunks");
   vp_assert(Chunk::GetHead() == a && Chunk::GetTail() == b, "C02:list ends changed by inserting a newline");
   vp_assert(nl->GetNlCount() == 1, "C01:inserted newline chunk does not stand for exactly one line break");
   if (in_pp)
   {
      vp_assert(nl->Is(CT_NL_CONT) && nl->TestFlags(PCF_IN_PREPROC), "C01:newline inserted inside a directive is not a backslash-newline");
      vp_assert(nl->GetStr().size() == 2 && nl->GetStr()[0] == '\\' && nl->GetStr()[1] == '\n', "C01:continuation chunk text is not backslash + newline");
      vp_witness("opt:preproc");
   }
   else
   {
      vp_assert(nl->Is(CT_NEWLINE) && !nl->TestFlags(PCF_IN_PREPROC), "C02:plain code got a continuation instead of a newline");
      vp_witness("opt:plain");
   }
   vp_assert(a->GetStr().size() == 1 && a->GetStr()[0] == 'a' && b->GetStr().size() == 1 && b->GetStr()[0] == 'b', "C02:token text changed by inserting a newline");
   vp_witness("end");
}
