/* NL-* obligations: blank-line limits and the newlines that open/close the file.
 * Real code: src/newlines/blank_line.cpp (blank_line_max, blank_line_set, do_blank_lines),
 * src/newlines/eat_start_end.cpp (newlines_eat_start_end), src/newlines/can_increase_nl.cpp,
 * src/chunk.cpp list primitives. Chunk lists are built through the real API.
 * Owners: C20 (limits), C17 (end of file policy), C07 (blank lines after CT_IGNORED untouched). */
#define private public
#define protected public
#include "/repo/src/newlines/blank_line.cpp"
#undef LCURRENT
#define LCURRENT LCURRENT_EAT
#include "/repo/src/newlines/eat_start_end.cpp"
#undef private
#undef protected
#include "vp_opts.h"
VP_ZERO_GLOBAL(cp_data_t, cpd);

#ifndef K
#define K 2
#endif
#ifndef NLMAXCOUNT
#define NLMAXCOUNT 9
#endif

/* token kinds the encoded code distinguishes (collected from the comparisons in the closure) */
static const E_Token vp_kinds[] = {
   CT_NEWLINE, CT_WORD, CT_SEMICOLON, CT_BRACE_OPEN, CT_BRACE_CLOSE, CT_COMMENT, CT_COMMENT_MULTI, CT_COMMENT_CPP,
   CT_IGNORED, CT_PREPROC, CT_VBRACE_OPEN, CT_CASE_COLON, CT_ACCESS_COLON
};
#define VP_NKINDS (sizeof(vp_kinds) / sizeof(vp_kinds[0]))
static const E_Token vp_parents[] = { CT_NONE, CT_FUNC_DEF, CT_NAMESPACE, CT_CLASS, CT_STRUCT, CT_FUNC_PROTO, CT_PP_IF, CT_PP_ELSE, CT_PP_ENDIF, CT_ENUM };
#define VP_NPARENTS (sizeof(vp_parents) / sizeof(vp_parents[0]))

static inline void vp_premise(Option<unsigned> &o, const char *name, unsigned nmax)
{
   if (name[0] == 'n' && name[1] == 'l' && name[2] == '_' && nmax > 0) { vp_assume(o() <= nmax); }
}
template<class T> static inline void vp_premise(T &, const char *, unsigned) {}
static Chunk *vp_chunks[K + 2];
static size_t vp_orig_nl[K + 2];

/* K chunks with symbolic kind / parent / level / flags / newline count, no two newline chunks adjacent
 * (representation invariant established by newlines_cleanup_dup, which runs before these passes) */
static void vp_build_list(bool symbolic_flags)
{
   E_Token prev_t = CT_NONE;
   for (int i = 0; i < K; i++)
   {
      Chunk c;
#ifdef VP_KINDS
      /* shape of the list concrete per instance (pointer-chasing over a list whose shape is symbolic makes
       * CBMC's dereferencing explode); counts, parents, levels, flags and all options stay symbolic */
      static const E_Token fixed[] = { VP_KINDS };
      E_Token t = fixed[i];
#else
      E_Token t = vp_kinds[vp_range(0, VP_NKINDS - 1)];
      vp_assume(!(t == CT_NEWLINE && prev_t == CT_NEWLINE));
#endif
      prev_t = t;
      c.SetType(t);
      c.SetParentType(vp_parents[vp_range(0, VP_NPARENTS - 1)]);
      c.SetOrigLine(i + 1);
      c.SetOrigCol(1);
      c.SetPpLevel(0);
      size_t lvl = (size_t)vp_range(0, 2);
      c.SetLevel(lvl);
      c.SetBraceLevel(lvl);
      size_t n = (t == CT_NEWLINE) ? (size_t)vp_range(1, NLMAXCOUNT) : 0;
      c.SetNlCount(n);
      vp_orig_nl[i] = n;
      if (symbolic_flags)
      {
         uint64_t f = vp_nondet();
#define VP_BIT(n, flag) if ((f >> (n)) & 1) { c.m_flags |= (flag); }
         VP_BIT(0, PCF_IN_PREPROC) VP_BIT(1, PCF_ONE_LINER) VP_BIT(2, PCF_IN_CLASS) VP_BIT(3, PCF_EMPTY_BODY) VP_BIT(4, PCF_VAR_DEF)
         VP_BIT(5, PCF_INCOMPLETE) VP_BIT(6, PCF_WF_IF) VP_BIT(7, PCF_WF_ENDIF) VP_BIT(8, PCF_IN_TRY_BLOCK)
      }
      vp_chunks[i] = c.CopyAndAddBefore(Chunk::NullChunkPtr);
   }
}
static size_t vp_leading_breaks() { Chunk *h = Chunk::GetHead(); return (h->IsNotNullChunk() && h->Is(CT_NEWLINE)) ? h->GetNlCount() : 0; }
static size_t vp_trailing_breaks() { Chunk *t = Chunk::GetTail(); return (t->IsNotNullChunk() && t->Is(CT_NEWLINE)) ? t->GetNlCount() : 0; }

/* NL-MAX ---------------------------------------------------------------------------- */
extern "C" void vp_nl_max()
{
   vp_havoc_options();
   Chunk c;
   c.SetType(CT_NEWLINE);
   size_t n0 = (size_t)vp_range(0, 0xffff);
   c.SetNlCount(n0);
   c.SetOrigLine(1);
   c.SetPpLevel(0);
   Chunk *pc = c.CopyAndAddBefore(Chunk::NullChunkPtr);
   if (vp_bool())
   {
      blank_line_max(pc, options::nl_max);
      unsigned m = options::nl_max();
      vp_assert(m == 0 || pc->GetNlCount() <= m, "C20:blank_line_max left more than the limit");
      vp_assert(pc->GetNlCount() == ((m > 0 && n0 > m) ? m : n0), "C20:blank_line_max changed a count that was within the limit");
      vp_witness("opt:max");
   }
   else
   {
      blank_line_set(pc, options::nl_max);
      unsigned m = options::nl_max();
      vp_assert(pc->GetNlCount() == (m > 0 ? m : n0), "C20:blank_line_set did not set the requested count");
      vp_witness("opt:set");
   }
   blank_line_max(Chunk::NullChunkPtr, options::nl_max);    /* total on the sentinel */
   vp_witness("end");
}

/* NL-EOF: newlines_eat_start_end ----------------------------------------------------- */
extern "C" void vp_nl_eof()
{
   vp_havoc_options();
   vp_build_list(false);
   cpd.frag_cols = vp_bool() ? 0 : 4;
   size_t   lead0 = vp_leading_breaks(), trail0 = vp_trailing_breaks();
   bool     single_nl = (K == 1) && lead0 > 0;      /* a file that is one newline chunk: head == tail */
   iarf_e   sof = options::nl_start_of_file(), eof = options::nl_end_of_file();
   unsigned smin = options::nl_start_of_file_min(), emin = options::nl_end_of_file_min();
   newlines_eat_start_end();
   size_t lead = vp_leading_breaks(), trail = vp_trailing_breaks();
   if (cpd.frag_cols != 0)
   {
      vp_assert(lead == lead0 && trail == trail0, "C17:code fragment: file ends must be left alone");
      vp_witness("opt:frag");
      return;
   }
   if (!single_nl)
   {
      if (sof == IARF_IGNORE) { vp_assert(lead == lead0, "C20:nl_start_of_file=ignore changed the start of the file"); }
      if (sof == IARF_REMOVE) { vp_assert(lead == 0, "C20:nl_start_of_file=remove left line breaks at the start of the file"); }
      if (sof == IARF_FORCE) { vp_assert(lead == smin, "C20:nl_start_of_file=force: number of leading line breaks is not nl_start_of_file_min"); }
      if (sof == IARF_ADD) { vp_assert(lead == (lead0 > smin ? lead0 : smin), "C20:nl_start_of_file=add: fewer than nl_start_of_file_min leading breaks, or existing ones removed"); }
      if (eof == IARF_IGNORE) { vp_assert(trail == trail0, "C17:nl_end_of_file=ignore changed the end of the file"); }
      if (eof == IARF_REMOVE) { vp_assert(trail == 0, "C17:nl_end_of_file=remove left line breaks at the end of the file"); }
      if (eof == IARF_FORCE) { vp_assert(trail == emin, "C17:nl_end_of_file=force: number of trailing line breaks is not nl_end_of_file_min"); }
      if (eof == IARF_ADD) { vp_assert(trail == (trail0 > emin ? trail0 : emin), "C17:nl_end_of_file=add: fewer than nl_end_of_file_min trailing breaks, or existing ones removed"); }
   }
   vp_witness("end");
}

/* NL-BLSTEP: do_blank_lines, then newlines_eat_start_end (the order of uncrustify_file) ---- */
extern "C" void vp_nl_blstep()
{
   vp_havoc_options();
   unsigned nmax = options::nl_max();
   /* premise of the property: no other blank-line count option (every unsigned nl_* option the closure
    * reads - the list is regenerated from the IR on every run) asks for more than nl_max */
#undef VP_HAVOC_OPT
#define VP_HAVOC_OPT(name) vp_premise(options::name, #name, nmax);
#include "vp_havoc_gen.h"
   vp_build_list(true);
   cpd.frag_cols = 0;
   bool after_ignored[K + 2];
   for (int i = 0; i < K; i++)
   {
      Chunk *p = vp_chunks[i]->GetPrevNc();
      after_ignored[i] = p->IsNotNullChunk() && p->Is(CT_IGNORED);
   }
   size_t lead0 = vp_leading_breaks();
   iarf_e   sof  = options::nl_start_of_file();
   unsigned smin = options::nl_start_of_file_min();
   do_blank_lines();
   /* no deletion happens in do_blank_lines: vp_chunks[] are all still in the list */
   for (int i = 0; i < K; i++)
   {
      Chunk *pc = vp_chunks[i];
      if (!pc->Is(CT_NEWLINE)) { continue; }
      if (after_ignored[i])
      {
         vp_assert(pc->GetNlCount() == vp_orig_nl[i], "C07:blank lines directly after a disabled region were changed");
         continue;
      }
      if (nmax > 0)
      {
         /* the first/last chunk temporarily counts one extra line, removed again before returning */
         vp_assert(pc->GetNlCount() <= nmax, "C20:more than nl_max consecutive line breaks after the blank-line pass");
      }
      vp_assert(pc->GetNlCount() >= 1 || vp_orig_nl[i] == 0, "C20:newline chunk lost all its line breaks in the blank-line pass");
   }
   newlines_eat_start_end();
   if (K > 1 && !(lead0 > 0 && after_ignored[0]))
   {
      size_t lead = vp_leading_breaks();
      if (sof == IARF_FORCE) { vp_assert(lead == smin, "C20:nl_start_of_file=force: leading line breaks differ from nl_start_of_file_min after both passes"); }
      if (sof == IARF_REMOVE) { vp_assert(lead == 0, "C20:nl_start_of_file=remove left leading line breaks after both passes"); }
      if (sof == IARF_ADD && smin > 0 && !options::nl_squeeze_ifdef())
      {
         /* documented: the option with its _min value determines the number of line breaks opening the file
          * (nl_squeeze_ifdef lets a leading #else/#endif keep its blank lines: excluded) */
         vp_assert(lead == smin, "C20:nl_start_of_file=add: leading line breaks are not nl_start_of_file_min after both passes");
      }
   }
   vp_witness("end");
}

/* NL-CANINC (C20): the first / last newline of a file may not grow when nl_start_of_file / nl_end_of_file
 * is set - this is what lets do_blank_lines squeeze it to one line so that newlines_eat_start_end() can
 * produce exactly the configured number. Shapes [NEWLINE, WORD] and [WORD, NEWLINE] (VP_KINDS). */
extern "C" void vp_nl_caninc()
{
   vp_havoc_options();
   vp_build_list(true);
   bool leading = vp_chunks[0]->Is(CT_NEWLINE);
   Chunk *nl = leading ? vp_chunks[0] : vp_chunks[K - 1];
   bool r = can_increase_nl(nl);
   if (!options::nl_squeeze_ifdef())
   {
      if (leading) { vp_assert(r == (options::nl_start_of_file() == IARF_IGNORE), "C20:whether the leading newline may grow is not governed by nl_start_of_file"); }
      else { vp_assert(r == (options::nl_end_of_file() == IARF_IGNORE), "C20:whether the trailing newline may grow is not governed by nl_end_of_file"); }
   }
   vp_witness("end");
}
