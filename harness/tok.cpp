/* TOK-* obligations: the tokenizer's sub-parsers (src/tokenizer/tokenize.cpp), each driven
 * directly from a TokenContext over N fully symbolic code points.
 * Owners: C02 (lossless, progress), C03 (comments/literals complete), C06 (memory safety,
 * termination, failed parse restores the position), C07 (disabled regions), C08 (terminators). */
#define private public
#define protected public
#include "/repo/src/tokenizer/tokenize.cpp"
#undef private
#undef protected
#include "vp_opts.h"
VP_ZERO_GLOBAL(cp_data_t, cpd);

#ifndef N
#define N 3
#endif

static std::deque<int> g_data;

static void vp_tok_setup()
{
   vp_havoc_options();
   for (int i = 0; i < N; i++)
   {
      int c = (int)vp_range(1, 0x10FFFF);      /* embedded NUL is refused before tokenizing (NUL-SCAN) */
      g_data.push_back(c);
   }
   cpd.lang_flags = (size_t)vp_range(1, 0x1ff);   /* any set of the nine language bits */
   cpd.in_preproc = vp_bool() ? CT_PREPROC : CT_NONE;
   cpd.unc_off    = false;
   for (int i = 0; i < 3; i++) { cpd.le_counts[i] = 0; }
}
/* "C" locale isspace; a form feed is whitespace unless the option says otherwise (issue #2386) */
static bool ref_isspace(int c)
{
   if (c == 12 && options::use_form_feed_no_more_as_whitespace_character()) { return false; }
   return c == ' ' || (c >= 9 && c <= 13);
}
/* logical line breaks in data[0..end): LF, CR LF (once), CR */
static size_t ref_breaks(size_t end, size_t *lf, size_t *crlf, size_t *cr)
{
   size_t n = 0;
   *lf = *crlf = *cr = 0;
   bool pending_cr = false;
   for (size_t i = 0; i < end && i < N; i++)
   {
      int c = g_data[i];
      if (pending_cr)
      {
         pending_cr = false;
         if (c == '\n') { (*crlf)++; n++; continue; }
         (*cr)++; n++;
      }
      if (c == '\r') { pending_cr = true; }
      else if (c == '\n') { (*lf)++; n++; }
   }
   if (pending_cr) { (*cr)++; n++; }
   return n;
}

/* TOK-WS: parse_whitespace --------------------------------------------------------- */
extern "C" void vp_tok_ws()
{
   vp_tok_setup();
   TokenContext ctx(g_data);
   Chunk        pc;
   bool         ok  = parse_whitespace(ctx, pc);
   size_t       idx = ctx.c.idx;
   vp_assert(idx <= N, "C06:tokenizer position beyond the end of the input");
   if (!ok)
   {
      vp_assert(idx == 0, "C06:failed parse did not restore the position");
      vp_assert(!ref_isspace(g_data[0]), "C02:whitespace at the current position was not consumed");
      vp_witness("opt:ws-false");
      return;
   }
   vp_assert(idx > 0, "C06:successful parse made no progress (tokenize() would not terminate)");
   bool allsp = true;
   for (size_t i = 0; i < idx && i < N; i++) { if (!ref_isspace(g_data[i])) { allsp = false; } }
   vp_assert(allsp, "C02:a non-whitespace character was swallowed as whitespace");
   /* maximal munch, except that a CR at the very end may still be completed by a LF (it is not: end of input) */
   vp_assert(idx == N || !ref_isspace(g_data[idx < N ? idx : 0]), "C02:whitespace run not consumed completely");
   size_t lf, crlf, cr;
   size_t nb = ref_breaks(idx, &lf, &crlf, &cr);
   vp_assert(pc.GetNlCount() == nb, "C08:newline count differs from the number of line breaks (LF, CR LF, CR each count once)");
   vp_assert(pc.GetType() == (nb ? CT_NEWLINE : CT_WHITESPACE), "C02:wrong chunk type for a whitespace run");
   vp_assert(pc.GetStr().size() == 0, "C02:whitespace chunk carries text");
   vp_assert(cpd.le_counts[0] == lf && cpd.le_counts[1] == crlf && cpd.le_counts[2] == cr,
             "C08:terminator census does not match the terminators read");
   vp_witness("end");
}

/* TOK-NL: parse_newline ------------------------------------------------------------- */
extern "C" void vp_tok_nl()
{
   vp_tok_setup();
   TokenContext ctx(g_data);
   bool         ok  = parse_newline(ctx);
   size_t       idx = ctx.c.idx;
   vp_assert(idx <= N, "C06:tokenizer position beyond the end of the input");
   size_t b = 0;
   while (b < N && (g_data[b] == ' ' || g_data[b] == '\t')) { b++; }
   bool   has  = (b < N) && (g_data[b] == '\n' || g_data[b] == '\r');
   size_t want = 0;
   if (has) { want = b + 1; if (g_data[b] == '\r' && want < N && g_data[want] == '\n') { want++; } }
   vp_assert(ok == has, "C08:parse_newline disagrees with 'blanks then one LF / CR LF / CR'");
   if (ok) { vp_assert(idx == want, "C08:parse_newline did not consume exactly one line terminator"); vp_witness("end"); }
   else { vp_assert(idx == 0 && ctx.c.col == 1 && ctx.c.row == 1, "C06:failed parse did not restore the position"); vp_witness("opt:nl-false"); }
}

/* TOK-BSNL: parse_bs_newline ------------------------------------------------------- */
extern "C" void vp_tok_bsnl()
{
   vp_tok_setup();
   vp_assume(g_data[0] == '\\');
   TokenContext ctx(g_data);
   Chunk        pc;
   bool         ok  = parse_bs_newline(ctx, pc);
   size_t       idx = ctx.c.idx;
   vp_assert(idx <= N, "C06:tokenizer position beyond the end of the input");
   size_t b = 1;
   while (b < N && ref_isspace(g_data[b]) && g_data[b] != '\n' && g_data[b] != '\r') { b++; }
   bool   has  = (b < N) && (g_data[b] == '\n' || g_data[b] == '\r');
   size_t want = 0;
   if (has) { want = b + 1; if (g_data[b] == '\r' && want < N && g_data[want] == '\n') { want++; } }
   vp_assert(ok == has, "C02:backslash-newline not recognised as 'backslash blanks* terminator'");
   if (ok)
   {
      vp_assert(idx == want, "C08:backslash-newline consumed more or less than one terminator");
      vp_assert(pc.GetType() == CT_NL_CONT && pc.GetNlCount() == 1 && pc.GetStr().size() == 1 && pc.GetStr()[0] == '\\',
                "C02:continuation chunk is not a CT_NL_CONT holding one backslash");
      vp_witness("end");
   }
   else { vp_assert(idx == 0, "C06:failed parse did not restore the position"); vp_witness("opt:bsnl-false"); }
}

/* stand-in for parse_comment() in TOK-IGN (solver build only, via the engine's redirect): the line holds no
 * '/', so the real function returns false at once; anything else would be flagged */
extern "C" __attribute__((noinline)) bool vp_stub_parse_comment(TokenContext &ctx, Chunk &pc)
{
   (void)pc;
   if (ctx.peek() == '/') { vp_unmodelled("parse_comment reached with a comment start (excluded by the TOK-IGN assumption)"); }
   return false;
}

/* TOK-IGN: parse_ignored inside a disabled region ---------------------------------- */
extern "C" void vp_tok_ign()
{
   vp_tok_setup();
   cpd.unc_off = true;
   /* a one-character custom enable marker, so that lines of N characters can contain it: the text may
    * hold the marker anywhere, but no '/' (no comment can start, so nothing legitimately re-enables
    * processing: that path is the MARKER obligation) and no '#' (#endasm / #pragma endasm) */
   options::enable_processing_cmt = std::string("@");
   bool hazard = false;
   for (int i = 0; i < N; i++) { if (g_data[i] == '/' || g_data[i] == '#') { hazard = true; } }
   vp_assume(!hazard);
   TokenContext ctx(g_data);
   Chunk        pc;
   bool         ok  = parse_ignored(ctx, pc);
   size_t       idx = ctx.c.idx;
   vp_assert(idx <= N, "C06:tokenizer position beyond the end of the input");
   vp_assert(ok && idx > 0, "C06:no progress inside a disabled region");
   vp_assert(cpd.unc_off, "C07:processing switched back on by text that is not the enable marker");
   if (pc.GetType() == CT_NEWLINE)
   {
      /* blank lines: only blanks and terminators were consumed, nlCount = number of terminators */
      bool   blank = true;
      size_t lf, crlf, cr;
      for (size_t i = 0; i < idx && i < N; i++) { int c = g_data[i]; if (!(c == ' ' || c == '\t' || c == '\n' || c == '\r')) { blank = false; } }
      vp_assert(blank, "C07:text of a disabled region swallowed into a newline chunk");
      vp_assert(pc.GetNlCount() == ref_breaks(idx, &lf, &crlf, &cr), "C07:blank lines of a disabled region miscounted");
      vp_witness("opt:ign-newline");
   }
   else
   {
      vp_assert(pc.GetType() == CT_IGNORED, "C07:line of a disabled region is not a CT_IGNORED chunk");
      /* the chunk is the line, byte for byte, up to (excluding) the terminator */
      bool same = (pc.GetStr().size() == idx);
      for (size_t i = 0; i < idx && i < N; i++)
      {
         if (pc.GetStr()[i] != g_data[i]) { same = false; }
         if (g_data[i] == '\n' || g_data[i] == '\r') { same = false; }
      }
      vp_assert(same, "C07:ignored chunk text differs from the line (or contains its terminator)");
      /* the chunk ends at the line terminator - or it is the run of leading blanks of a line that mentions
       * the marker (the rest of the line follows as the next ignored chunk) */
      bool blanks = true;
      for (size_t i = 0; i < idx && i < N; i++) { if (!ref_isspace(g_data[i])) { blanks = false; } }
      vp_assert(idx == N || g_data[idx < N ? idx : 0] == '\n' || g_data[idx < N ? idx : 0] == '\r' || blanks,
                "C07:ignored line not consumed up to its terminator");
      vp_witness("end");
   }
}

/* TOK-STR: parse_string on a text that starts with a quote (C03: literals are complete and unaltered) */
extern "C" void vp_tok_str()
{
   vp_tok_setup();
   vp_assume(g_data[0] == '"' || g_data[0] == '\'');
   /* premise of C03: no string-rewriting option is set */
   vp::set(options::string_replace_tab_chars, false);
   bool         allow_escape = vp_bool();
   TokenContext ctx(g_data);
   Chunk        pc;
   bool         ok  = parse_string(ctx, pc, 0, allow_escape);
   size_t       idx = ctx.c.idx;
   vp_assert(ok && idx > 0, "C06:no progress on a string literal");
   vp_assert(idx <= N, "C06:tokenizer position beyond the end of the input");
   bool same = (pc.GetStr().size() == idx);
   for (size_t i = 0; i < idx && i < N; i++) { if (pc.GetStr()[i] != g_data[i]) { same = false; } }
   vp_assert(same, "C03:string literal chunk differs from the characters consumed");
   size_t lf, crlf, cr;
   size_t nb = ref_breaks(idx, &lf, &crlf, &cr);
   vp_assert(pc.GetNlCount() == nb, "C08:line breaks inside a string literal miscounted (LF, CR LF, CR each count once)");
   vp_assert(pc.GetType() == (nb ? CT_STRING_MULTI : CT_STRING), "C03:wrong chunk type for a string literal");
   vp_witness("end");
}

/* TOK-NUM: parse_number (C02 lossless / C06 no over-read) */
extern "C" void vp_tok_num()
{
   vp_tok_setup();
   vp_assume((g_data[0] >= '0' && g_data[0] <= '9') || g_data[0] == '.');
   TokenContext ctx(g_data);
   Chunk        pc;
   bool         ok  = parse_number(ctx, pc);
   size_t       idx = ctx.c.idx;
   vp_assert(idx <= N, "C06:tokenizer position beyond the end of the input");
   if (!ok)
   {
      vp_assert(idx == 0, "C06:failed parse did not restore the position");
      vp_witness("opt:num-false");
      return;
   }
   vp_assert(idx > 0, "C06:successful parse made no progress");
   bool same = (pc.GetStr().size() == idx);
   for (size_t i = 0; i < idx && i < N; i++) { if (pc.GetStr()[i] != g_data[i]) { same = false; } }
   vp_assert(same, "C02:number chunk differs from the characters consumed");
   vp_witness("end");
}

/* TOK-CMT: parse_comment (C03: comments keep their complete text, continuation lines included) */
extern "C" void vp_tok_cmt()
{
   vp_tok_setup();
   vp_assume(g_data[0] == '/');
   TokenContext ctx(g_data);
   Chunk        pc;
   bool         ok  = parse_comment(ctx, pc);
   size_t       idx = ctx.c.idx;
   vp_assert(idx <= N, "C06:tokenizer position beyond the end of the input");
   if (!ok)
   {
      vp_assert(idx == 0, "C06:failed parse did not restore the position");
      vp_witness("opt:cmt-false");
      return;
   }
   vp_assert(idx >= 2, "C06:a comment shorter than its opener");
   bool same = (pc.GetStr().size() == idx);
   for (size_t i = 0; i < idx && i < N; i++) { if (pc.GetStr()[i] != g_data[i]) { same = false; } }
   vp_assert(same, "C03:comment chunk differs from the characters consumed");
   vp_assert(pc.Is(CT_COMMENT_CPP) || pc.Is(CT_COMMENT) || pc.Is(CT_COMMENT_MULTI), "C03:wrong chunk type for a comment");
   if (!pc.Is(CT_COMMENT_CPP))
   {
      size_t lf, crlf, cr;
      size_t nb = ref_breaks(idx, &lf, &crlf, &cr);
      vp_assert(pc.GetNlCount() == nb, "C08:line breaks inside a block comment miscounted (LF, CR LF, CR each count once)");
      vp_assert(pc.Is(CT_COMMENT_MULTI) == (nb > 0), "C03:block comment kind does not reflect whether it spans lines");
      vp_assert(cpd.le_counts[0] == lf && cpd.le_counts[1] == crlf && cpd.le_counts[2] == cr, "C08:terminator census does not match the terminators inside the comment");
   }
   vp_assert(!cpd.unc_off, "C07:processing switched off by a comment that cannot contain the disable marker");
   vp_witness("end");
}
