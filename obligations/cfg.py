"""CFG-*: option value reader/writer (src/option.cpp, src/option.h, generated option_enum.cpp)."""
import os
import re
TUS = ['$BUILD/src/options.cpp', '$HARNESS/chartable.cpp', '$BUILD/src/option_enum.cpp', '$HARNESS/stdstr.cpp']
PATCH = [dict(file='option.cpp', subs=[
    (r'^OptionWarning::OptionWarning\(const char \*filename, Severity severity\)', 'static void vp_detached_ctor1(const char *filename, OptionWarning::Severity severity)', 1),
    (r'^OptionWarning::OptionWarning\(const GenericOption \*opt, Severity severity\)', 'static void vp_detached_ctor2(const GenericOption *opt, OptionWarning::Severity severity)', 1),
    (r'^OptionWarning::~OptionWarning\(\)', 'static void vp_detached_dtor()', 1),
    (r'^void OptionWarning::operator\(\)\(const char \*fmt, \.\.\.\)', 'static void vp_detached_call(const char *fmt, ...)', 1),
    (r'^uncrustify::GenericOption \*find_option\(const char \*name\)', 'static uncrustify::GenericOption *vp_detached_find_option(const char *name)', 1)])]


def gen_headers(prep):
    txt = open(os.path.join('/repo/src/options.h')).read()
    seen = {}
    for m in re.finditer(r'extern\s+BoundedOption<\s*(\w+)\s*,\s*(-?\d+)\s*,\s*(-?\d+)\s*>\s*\n?\s*(\w+)\s*;', txt):
        seen.setdefault((m.group(1), m.group(2), m.group(3)), m.group(4))
    body = '/* one option object per BoundedOption<T,min,max> instantiation declared in options.h (regenerated every run) */\n'
    for k in sorted(seen):
        body += 'VP_BOUNDED(%s) /* %s in [%s, %s] */\n' % (seen[k], k[0], k[1], k[2])
    return {'vp_bounded_gen.h': body}


COMMON = dict(harness='cfg.cpp', extra_tus=TUS, patch_sources=PATCH, gen_headers=gen_headers,
              cut_re=r'print_description|save_option_file|load_option_file|process_option_line|split_args|regex|basic_stringIw|_ZNSt6locale|St5ctypeI|use_facet|ios_base|basic_[io]stream|basic_filebuf|_Hashtable|unordered_map',
              assumptions=['find_option() = harness resolver over three reference options (u, s, b); OptionWarning counts diagnostics',
                           'strtol = reference model in models/vp_rt.h (C11 7.22.1.4, base 10)', 'real libstdc++ std::string (SSO) in the IR'])
OBLIGATIONS = [
    dict(COMMON, id='CFG-NUM', entry='vp_cfg_num',
         instances=lambda tier: [dict(name='n%d' % n, bound='all value texts of %d non-blank characters x all values of the referenced options, for a bounded unsigned and a bounded signed option' % n,
                                      unwind=n + 4, unwindset={'_GLOBAL__sub_I': 40, 'strlen|strchr|strcasecmp': 8}, defs=dict(N=n)) for n in ((1, 2, 3) if tier == 'quick' else (1, 2, 3, 4, 5))]),
    dict(COMMON, id='CFG-BOUND', entry='vp_cfg_bound',
         instances=lambda tier: [dict(name='all', bound='every long value x every BoundedOption<T,min,max> instantiation declared in options.h', unwind=4, unwindset={'_GLOBAL__sub_I': 40}, defs=dict(N=1))]),
    dict(COMMON, id='CFG-ENUM', entry='vp_cfg_enum',
         instances=lambda tier: [dict(name='all', bound='every value of iarf_e, line_end_e, token_pos_e and bool', unwind=12, unwindset={'_GLOBAL__sub_I': 40, 'strlen|strcasecmp|strcmp|_M_construct|char_traits': 16}, defs=dict(N=1))]),
]
PROPERTIES = {
    'C16': dict(obligations=['CFG-NUM', 'CFG-BOUND'],
                not_decided='the line splitter and file loop (split_args, process_option_line, load_option_file), include handling, the nl_max cross-option guard; '
                            'observation (not asserted): unbounded unsigned options accept a negative literal and wrap.'),
    'C15': dict(obligations=['CFG-ENUM', 'CFG-NUM'],
                not_decided='string options and quoting (save_option_file vs split_args), custom keyword / file_ext directives, whole-file idempotence, behavioural equivalence.'),
}
