/* forces the std::string member functions into the IR of the solver build (otherwise they are
 * symbols of libstdc++.so); the reference build uses the library's own copies */
#ifndef VP_REAL_STL
template class std::basic_string<char>;
#endif
