"""OUT-*: the character writer (src/output.cpp add_char/add_text/output_to_column + unicode.cpp writers)."""
TUS = ['unicode.cpp', 'unc_text.cpp', '$BUILD/src/options.cpp', '$HARNESS/chartable.cpp']


def char_instances(tier):
    out = []
    combos = [(3, 2), (2, 4)] if tier == 'quick' else [(2, 8), (3, 4), (3, 3), (4, 2), (4, 4), (5, 2)]
    for (n, ts) in combos:
        for trail in (0, 1):
            cap = (n + 1) * ts + 2 * n + 4
            out.append(dict(name='n%d-ts%d-trail%d' % (n, ts, trail),
                            bound='all texts of %d elements (line break | ASCII char) x all terminator mixtures (LF, CR LF, CR per break) read two ways, tab size %d, output_trailspace=%d, all other writer flags and options' % (n, ts, trail),
                            unwind=cap + 2, unwindset={'add_char': (n + 1) * ts + 2, 'write_string': 4, 'UncText': 5, 'strlen': 4, 'render': (n + 1) * ts + 2},
                            defs=dict(N=n, TS=ts, TRAILSPACE=trail, VP_CAP_U8=cap, VP_CAP_INT=4)))
    return out


def col_instances(tier):
    out = []
    combos = [(0, 9, 4), (0, 9, 3)] if tier == 'quick' else [(0, 16, 8), (0, 12, 5), (0, 8, 1), (1, 12, 4), (1, 9, 3), (2, 8, 3), (2, 6, 2)]
    for (p, colmax, ts) in combos:
        for trail in (0, 1):
            cap = colmax + p * ts + 6
            inner = max(ts, colmax + p * ts) + 2
            out.append(dict(name='p%d-col%d-ts%d-trail%d' % (p, colmax, ts, trail),
                            bound='line prefix of %d chars from {a, blank, tab}, target column 1..%d, tab size %d, output_trailspace=%d, tabs allowed or not, all other writer flags and options' % (p, colmax, ts, trail),
                            unwind=cap + 2, unwindset={'add_char': inner, 'output_to_column': colmax + 2, 'write_string': 4, 'UncText': 5, 'strlen': 4},
                            defs=dict(P=p, COLMAX=colmax, TS=ts, TRAILSPACE=trail, VP_CAP_U8=cap, VP_CAP_INT=4)))
    return out


COMMON = dict(harness='out.cpp', extra_tus=TUS, havoc_options=True, redirect={'_Z10write_chari': 'vp_sink_char'},
              assumptions=['write_char() is replaced by a byte recorder in the solver build (the real writer is decided by UNI-* of C09); the reference build used for validation and replay runs the real write_char', 'html line numbering off (set_numbering_for_html_output is a debug aid)',
                           'logging helpers are empty (models: NOOP_RE in engine/vp.py)',
                           'std::deque/std::vector replaced by fixed-capacity models (models/vpstl.h)'])
OBLIGATIONS = [
    dict(COMMON, id='OUT-CHAR', entry='vp_out_char', instances=char_instances,
         assumptions=COMMON['assumptions'] + ['no blank directly in front of a line break unless cpd.output_trailspace (callers: output_text writes blanks only in front of a chunk)',
                                              'the text ends in a non-break character (a pending CR is flushed by the next character)']),
    dict(COMMON, id='OUT-COL', entry='vp_out_col', instances=col_instances),
]
OBLIGATIONS.append(dict(id='OUT-LOOP', harness='outloop.cpp', entry='vp_out_loop', havoc_options=True, redirect={'_Z10write_chari': 'vp_sink_char'},
                        extra_tus=TUS + ['chunk.cpp', 'unc_ctype.cpp'], noop=['_Z11encode_utf8iRSt9vp_vectorIhvE', 'snprintf', '_Z18DecodeTrackingDataP5Chunk'],
                        cut_re=r'reindent_line|output_comment|add_comment_text|cmt_|regex|basic_stringIw|_ZNSt6locale|St5ctypeI|use_facet|kw_fcn|do_kw_subst|generate_if_conditional|_Rb_tree|St3mapI',
                        instances=lambda tier: [dict(name='ts%d-col%d-%s' % (ts, cm, ak[3:].lower()), bound='chunk list [NEWLINE(0..3), A(%s), B(word), NEWLINE(1)]: columns of A (1..%d) and B, preprocessor/aligned/after-tab flags, tab size %d, every option the loop reads' % (ak, cm, ts),
                                                     unwind=cm + 8, unwindset={'add_char|output_to_column': cm + 6, 'write_string': 4, 'UncText|strlen': 5}, timeout=1500,
                                                     defs=dict(TS=ts, COLMAX=cm, AKIND=ak, VP_CAP_U8=2 * cm + 16, VP_CAP_INT=4))
                                                for (ts, cm, ak) in ([(4, 5, 'CT_WORD'), (2, 4, 'CT_BRACE_CLOSE')] if tier == 'quick' else [(4, 9, 'CT_WORD'), (3, 8, 'CT_BRACE_CLOSE'), (8, 10, 'CT_WORD'), (2, 6, 'CT_CASE_COLON')])],
                        assumptions=['write_char() replaced by a byte recorder in the solver build', 'columns of A and B do not overlap (reindent_line cut)', 'A and B are not comments / newlines / continuations / ignored text / #define',
                                     'html tracking and line numbering off', 'terminator LF', 'container models, logging helpers empty']))
import os as _os
_EXP = bool(_os.environ.get('VP_EXPERIMENTAL'))
PROPERTIES = {
    'C08': dict(obligations=['OUT-CHAR'],
                not_decided='the comment writers\' own handling of CR/LF inside comment text (output_comment_*).'),
    'C17': dict(obligations=['OUT-CHAR', 'OUT-COL'] + (['OUT-LOOP'] if _EXP else []),
                not_decided='trimming inside comments (cmt_trim_whitespace).'),
    'C05': dict(obligations=['OUT-COL'],
                not_decided='the byte-level fixed point of the whole pipeline (all passes, all programs) is out of reach of this technique.'),
    'C18': dict(obligations=['OUT-COL'],
                not_decided='indent_text() and brace_cleanup(), which choose the column, are not encodable within reach: only the realisation of a chosen column is decided.'),
}
