/* Included first by every harness TU: pulls in every standard header the
 * uncrustify sources use (so their include guards are set), then - for the
 * solver build - redirects the container names to the fixed-capacity models. */
#ifndef VP_PRELUDE_H_INCLUDED
#define VP_PRELUDE_H_INCLUDED
#include <algorithm>
#include <bitset>
#include <cassert>
#include <cctype>
#include <cerrno>
#include <cstdarg>
#include <cstddef>
#include <cstdint>
#include <cstdio>
#include <cstdlib>
#include <cstring>
#include <ctime>
#include <deque>
#include <fstream>
#include <iostream>
#include <limits>
#include <map>
#include <memory>
#include <regex>
#include <set>
#include <stack>
#include <stdexcept>
#include <string>
#include <type_traits>
#include <unordered_map>
#include <vector>
#include <assert.h>
#include <fcntl.h>
#include <inttypes.h>
#include <stdio.h>
#include <stdlib.h>
#include <string.h>
#include <strings.h>
#include <sys/stat.h>
#include <sysexits.h>
#include <time.h>
#include <unistd.h>
#include <utime.h>
#include "vp.h"
#ifndef VP_REAL_STL
#include "vpstl.h"
#define deque  vp_deque
#define vector vp_vector
#endif
/* `throw X` -> vp_abort(): lets TUs that throw be compiled with -fno-exceptions
 * (the tree contains no catch, so a throw is always an uncaught exception). */
struct vp_thrower
{
   template<class T> void operator=(const T &) const { vp_abort("uncaught C++ exception thrown"); }
};
#ifndef VP_REAL_STL
#define throw vp_thrower() =
#endif
#endif
